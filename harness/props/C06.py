"""C06 - Replicated objects are written once, by one rank, with balanced load."""
from __future__ import annotations

import itertools
import os
import shutil

from lib import coqrun
from lib.core import Ctx, Failure, Mismatch, Result
from lib.tocoq import term, val

PROP = "C06"
PROPS_FILE = "props/C06.v"
GEN = ["gen_partition"]
CORRESPONDENCES = ["sizes:_estimate_write_req_storage_size~tensor-bytes", "partition:_partition_write_loads~model", "select:partition_write_reqs~model",
                   "consolidate:consolidate_replicated_entries~model", "replicated_paths:_calculate_replicated_entries~model"]
RULE = ("(1) real _partition_write_loads on generated load vectors (W 1..8, whole-path and chunked units, sizes incl. 0, "
        "equal sizes for ties; thorough: bounded-exhaustive W<=4, starting loads<=3, sizes<=4, <=5 chunk units (<=4 for W=4 plus a sample of 5) and <=3 whole-path units (<=2 for W=4)); (2) real "
        "partition_write_reqs + consolidate_replicated_entries in the simulated world (1..8 ranks) on entries/write requests "
        "of the real prepare_write for generated replicated/private tensors (dtypes, 1-D/2-D, zero-length, chunk "
        "thresholds) and objects; (3) real Snapshot.take + Snapshot.restore on every rank with replicated globs (**, m/*, "
        "exact names, none), per-rank private state and keys matching the glob but absent on some rank, batching on/off; "
        "(4) real _calculate_replicated_entries on generated key sets / globs / sharded values.  Non-trivial = at least "
        "two ranks and at least one replicated unit; distinct by scenario.")
TRUSTED = [
    "Coq 8.16.1 kernel and vm_compute (no native_compute); theorems closed under the global context",
    "translator/gen_partition.py (Python ast -> constants: choice of the writer rank, load update, merge order, dedup "
    "default, replicated-path count test; structural check of the surrounding loops, fail closed)",
    "hand-written model coq/model/Partition.v (defined from the generated constants), tied to the code by differential "
    "runs of the real partitioner / consolidation / _calculate_replicated_entries (this harness)",
    "harness/lib/world.py (ranks as scheduler-managed threads, PGWrapper collectives and the fs plugin patched), "
    "harness/props/C06.py generators, canonicalisation, witness search for the set-iteration order, lib/tocoq.py",
    "torch.save/torch.load, fnmatch and the file system are runtime (fnmatch enters the model as a table)",
]
ASSUMPTIONS = [
    "a replicated object has the same entries and write loads on every rank (what 'replicated' means); ranks that "
    "disagree on a replicated path's write requests are outside the model",
    "partially replicated DTensor entries (choice restricted to a shard's replica ranks) are not modelled",
    "the iteration order of the Python set `partitionables` is an argument of the model: every theorem holds for every "
    "order; the correspondence supplies a witness order under which the model reproduces the real result exactly",
    "consolidation theorem: keys of one rank's manifest are distinct (Python dict) and a path is replicated on every rank "
    "where it appears or on none (guaranteed by the broadcast of replicated_paths in _take_impl)",
    "load = the code's own estimate (tensor bytes from the entry; sys.getsizeof for objects)",
]
IMPORTS = "From TS Require Import model.Partition.\n"
PTYPE = "list Z * list item * list load"
STYPE = "manifest * list load"
CTYPE = "list manifest"
RTYPE = "list (Z * Z) * list Z * list (list Z * list Z)"

ENV_KEYS = ["TORCHSNAPSHOT_MAX_CHUNK_SIZE_BYTES_OVERRIDE", "TORCHSNAPSHOT_DISABLE_BATCHING",
            "TORCHSNAPSHOT_PER_RANK_MEMORY_BUDGET_BYTES", "TORCHSNAPSHOT_SLAB_SIZE_THRESHOLD_BYTES_OVERRIDE"]


class _Env:
    def __init__(self, **kw):
        self.kw = kw

    def __enter__(self):
        self.saved = {k: os.environ.get(k) for k in ENV_KEYS}
        for k in ENV_KEYS:
            os.environ.pop(k, None)
        for k, v in self.kw.items():
            if v is not None:
                os.environ[k] = str(v)

    def __exit__(self, *a):
        for k, v in self.saved.items():
            if v is None:
                os.environ.pop(k, None)
            else:
                os.environ[k] = v


# =========================================================================== building objects from json-able specs
DTYPES = ["float32", "int8", "float64", "int16", "uint8", "bool", "bfloat16", "int64", "complex64"]


def build(spec, salt=0):
    """spec: ["t", dtype, shape, seed] | ["o", kind, n] | ["p", value]"""
    import torch
    k = spec[0]
    if k == "t":
        _, dt, shape, seed = spec
        n = 1
        for d in shape:
            n *= d
        base = (torch.arange(n, dtype=torch.int64) * 7 + seed + 13 * salt) % 251
        dtype = getattr(torch, dt)
        t = (base % 2).to(torch.bool) if dtype == torch.bool else base.to(dtype)
        return t.reshape(shape)
    if k == "o":
        _, kind, n = spec
        if kind == "tuple":
            return tuple(range(salt, salt + n))
        if kind == "set":
            return set(range(salt, salt + n))
        return bytearray(range(salt, salt + n))
    return spec[1]


def bits(t):
    import torch
    t = t.contiguous().reshape(-1)
    if t.dtype == torch.bool:
        return t.to(torch.uint8)
    if t.dtype.is_complex:
        t = torch.view_as_real(t).reshape(-1)
    return t.view(torch.uint8)


def same(a, b) -> bool:
    import torch
    if isinstance(a, torch.Tensor):
        return isinstance(b, torch.Tensor) and a.dtype == b.dtype and a.shape == b.shape and \
            (a.numel() == 0 or torch.equal(bits(a), bits(b)))
    return type(a) == type(b) and a == b


def blank(o):
    import torch
    if isinstance(o, torch.Tensor):
        return torch.zeros_like(o)
    if isinstance(o, (int, str, float, bool, bytes)):
        return type(o)()
    return None


def gen_objspec(rng, small=False):
    r = rng.random()
    if r < 0.72:
        dt = rng.choice(DTYPES)
        if rng.random() < 0.25:
            shape = [rng.choice([1, 2, 3, 5, 8]), rng.choice([1, 2, 3])]
        else:
            shape = [rng.choice([0, 1, 2, 3, 4, 5, 8, 13, 16, 17, 40] if not small else [0, 1, 2, 4, 9])]
        return ["t", dt, shape, rng.randrange(200)]
    if r < 0.9:
        return ["o", rng.choice(["tuple", "set", "bytearray"]), rng.choice([0, 1, 3, 9, 30])]
    return ["p", rng.choice([7, "cfg", 2.5, True, b"\x00\xff"])]


# =========================================================================== spying on the partitioning step
class PartitionSpy:
    """Records every call of partitioner._partition_write_loads (inputs, starting loads, result, final loads); the
    real function does the work."""
    def __enter__(self):
        import torchsnapshot.partitioner as P
        self.P = P
        self.real = P._partition_write_loads
        self.calls = []

        def spy(rank_to_entries, rank_to_write_loads, rank_to_size, world_size):
            before = list(rank_to_size)
            out = self.real(rank_to_entries=rank_to_entries, rank_to_write_loads=rank_to_write_loads,
                            rank_to_size=rank_to_size, world_size=world_size)
            self.calls.append({"entries": rank_to_entries, "loads": rank_to_write_loads, "start": before,
                               "final": list(rank_to_size), "result": out, "W": world_size})
            return out
        P._partition_write_loads = spy
        return self

    def __exit__(self, *a):
        self.P._partition_write_loads = self.real


def first_min(xs):
    b = 0
    for i, x in enumerate(xs):
        if x < xs[b]:
            b = i
    return b


def partition_case(call):
    """One recorded call of _partition_write_loads -> (model input term, expected observation, summary).
    The set `partitionables` is iterated in an order we cannot see; we search for a witness order: merge the per-rank
    sequences of chunk units by replaying the greedy rule.  Soundness does not rest on this search: the model checks
    that the witness is a permutation of the collected chunks and must then reproduce the real per-rank lists (in
    order) and the final loads exactly; a wrong witness can only produce a mismatch."""
    from torchsnapshot.manifest import ChunkedTensorEntry
    ents, loads0 = call["entries"], call["loads"][0]
    paths = list(ents[0].keys())
    pid = {p: i for i, p in enumerate(sorted(paths))}
    sub = {p: isinstance(ents[0][p], ChunkedTensorEntry) and all(e[p] == ents[0][p] for e in ents) for p in paths}
    items = [(pid[p], sub[p], [(pid[w.logical_path], int(w.write_req_idx), int(w.size)) for w in loads0.get(p, [])]) for p in paths]
    result = [[(pid[w.logical_path], int(w.write_req_idx), int(w.size)) for w in lst] for lst in call["result"]]
    subids = {pid[p] for p in paths if sub[p]}
    sizes = [int(x) for x in call["start"]]
    queues = []
    for r, lst in enumerate(result):
        sizes[r] += sum(s for (p, _, s) in lst if p not in subids)
        queues.append([u for u in lst if u[0] in subids])
    ordw = []
    while any(queues):
        c = first_min(sizes)
        if not queues[c]:
            break
        u = queues[c].pop(0)
        ordw.append(u)
        sizes[c] += u[2]
    for q in queues:
        ordw += q
    inp = term(([int(x) for x in call["start"]], items, ordw))
    exp = val([1, [[list(u) for u in lst] for lst in result], [int(x) for x in call["final"]]])
    return inp, exp, {"start": [int(x) for x in call["start"]], "items": items, "result": result, "final": [int(x) for x in call["final"]]}


def units_of_call(call):
    """(units, per-rank assigned units) of a recorded call.  A unit = a whole non-subpartitionable path (all its write
    loads, size = sum) or one chunk of a subpartitionable path.  unit key = (path, None) or (path, idx)."""
    from torchsnapshot.manifest import ChunkedTensorEntry
    ents, loads0 = call["entries"], call["loads"][0]
    units = {}
    for p in ents[0].keys():
        ls = loads0.get(p, [])
        if isinstance(ents[0][p], ChunkedTensorEntry) and all(e[p] == ents[0][p] for e in ents):
            for w in ls:
                units[(p, int(w.write_req_idx))] = int(w.size)
        elif ls:                      # a path without write requests has nothing to write: not a unit of work
            units[(p, None)] = sum(int(w.size) for w in ls)
    return units


def oracle_partition(start, units, holders, res, replay, where):
    """The property on one partitioning: `holders[unit]` = list of ranks that hold the unit.
    exactly once; bytes = sum of sizes; balance with the code's size estimate."""
    W = len(start)
    bad = {str(u): h for u, h in holders.items() if len(h) != 1}
    missing = [str(u) for u in units if u not in holders]
    if bad or missing:
        res.failures.append(Failure("C06:replicated-unit-not-assigned-exactly-once",
                                    f"{where}: replicated units not held by exactly one rank: {bad} missing={missing} (W={W})", replay))
        return
    load = list(start)
    got = [[] for _ in range(W)]
    for u, h in holders.items():
        load[h[0]] += units[u]
        got[h[0]].append(units[u])
    total = sum(sum(g) for g in got)
    if total != sum(units.values()):
        res.failures.append(Failure("C06:replicated-bytes-not-sum-of-sizes",
                                    f"{where}: replicated bytes assigned {total} != sum of sizes {sum(units.values())}", replay))
    mn = min(load)
    for r in range(W):
        if got[r] and load[r] > mn + max(got[r]):
            res.failures.append(Failure("C06:unbalanced-assignment",
                                        f"{where}: rank {r} ends at {load[r]} > least load {mn} + its largest unit {max(got[r])}; "
                                        f"start={start} final={load} W={W}", replay))
            break


# =========================================================================== (1) _partition_write_loads directly
def run_direct(spec):
    """spec: {"W", "start", "units": [[name, kind, sizes]]}; kind: whole | chunk | diffchunk (a ChunkedTensorEntry that
    differs on the last rank: not subpartitionable).  Returns the recorded call."""
    from torchsnapshot import partitioner as P
    from torchsnapshot.manifest import ChunkedTensorEntry, ObjectEntry
    W = spec["W"]
    ents = [dict() for _ in range(W)]
    loads = [dict() for _ in range(W)]
    for name, kind, sizes in spec["units"]:
        for r in range(W):
            if kind == "whole":
                e = ObjectEntry(location="replicated/" + name, serializer="torch_save", obj_type="object", replicated=True)
            else:
                shape = [len(sizes) + (1 if kind == "diffchunk" and r == W - 1 and W > 1 else 0)]
                e = ChunkedTensorEntry(dtype="float32", shape=shape, chunks=[], replicated=True)
            ents[r][name] = e
            loads[r][name] = [P._WriteLoad(logical_path=name, write_req_idx=i, size=s) for i, s in enumerate(sizes)]
    sizes = list(spec["start"])
    before = list(sizes)
    out = P._partition_write_loads(rank_to_entries=ents, rank_to_write_loads=loads, rank_to_size=sizes, world_size=W)
    return {"entries": ents, "loads": loads, "start": before, "final": list(sizes), "result": out, "W": W}


def holders_of_result(call):
    from torchsnapshot.manifest import ChunkedTensorEntry
    ents = call["entries"]
    subp = {p: isinstance(ents[0][p], ChunkedTensorEntry) and all(e[p] == ents[0][p] for e in ents) for p in ents[0]}
    holders = {}
    for r, lst in enumerate(call["result"]):
        seen_whole = {}
        for w in lst:
            if subp[w.logical_path]:
                holders.setdefault((w.logical_path, int(w.write_req_idx)), []).append(r)
            else:
                seen_whole.setdefault(w.logical_path, []).append(int(w.write_req_idx))
        for p, idxs in seen_whole.items():
            n = len(call["loads"][0].get(p, []))
            # the whole path counts as held once per complete copy of its write requests
            copies = max(1, len(idxs) // max(n, 1)) if sorted(set(idxs)) == list(range(n)) else 99
            holders.setdefault((p, None), []).extend([r] * copies)
    return holders


def direct_specs(ctx: Ctx):
    rng = ctx.rng
    names = ["m/w", "m/b", "a", "z/k", "m/w_0", "opt/st", "B", "m/a/b"]
    out = [{"W": 3, "start": [5, 0, 2], "units": [["m/a", "whole", [3, 1]], ["m/w", "chunk", [4, 1, 7]]]},
           {"W": 2, "start": [0, 0], "units": [["x", "chunk", [1, 1, 1, 1]]]},
           {"W": 4, "start": [3, 3, 3, 3], "units": [["a", "whole", [0]], ["b", "whole", [2, 2]], ["c", "diffchunk", [1, 5]]]},
           {"W": 1, "start": [9], "units": [["a", "chunk", [2, 0, 2]], ["b", "whole", [1]]]}]
    for _ in range(ctx.n(400, 3000)):
        W = rng.choice([1, 2, 2, 3, 3, 4, 5, 6, 7, 8])
        hi = rng.choice([0, 3, 10, 100])
        start = [rng.randint(0, hi) for _ in range(W)]
        ns = rng.sample(names, rng.randint(1, 5))
        units = []
        for n in ns:
            kind = rng.choice(["whole", "chunk", "chunk", "diffchunk"])
            szs = [rng.choice([0, 1, 1, 2, 3, 4, 7, 16, 100]) for _ in range(rng.randint(1, 5) if kind != "whole" else rng.randint(0, 3))]
            units.append([n, kind, szs])
        out.append({"W": W, "start": start, "units": units})
    return out


def exhaustive_specs(rng):
    """Starting loads <= 3, sizes <= 4.  Chunk units (second loop): every multiset of <= 5 sizes for W <= 3 and of <= 4
    sizes for W = 4 (the visit order of the set is Python's, not ours), plus a sample of 5-unit multisets for W = 4;
    whole-path units (first loop): every sequence of <= 3 sizes for W <= 3 and of <= 2 sizes for W = 4."""
    for W in (1, 2, 3, 4):
        for start in itertools.product(range(4), repeat=W):
            for n in range(0, (5 if W <= 3 else 4) + 1):
                for ms in itertools.combinations_with_replacement(range(5), n):
                    yield {"W": W, "start": list(start), "units": [["c", "chunk", list(ms)]]}
            for n in range(1, (3 if W <= 3 else 2) + 1):
                for seq in itertools.product(range(5), repeat=n):
                    yield {"W": W, "start": list(start), "units": [[f"p{i}", "whole", [s]] for i, s in enumerate(seq)]}
    five = list(itertools.combinations_with_replacement(range(5), 5))
    for _ in range(3000):
        yield {"W": 4, "start": [rng.randrange(4) for _ in range(4)], "units": [["c", "chunk", list(rng.choice(five))]]}


def check_direct(ctx: Ctx, res: Result):
    coq, meta = [], []
    specs = direct_specs(ctx)
    nrand = len(specs)
    if ctx.thorough:
        specs = itertools.chain(specs, exhaustive_specs(ctx.rng))
        res.exhaustive = True
    for k, spec in enumerate(specs):
        call = run_direct(spec)
        units = units_of_call(call)
        replay = {"kind": "direct", **spec}
        oracle_partition(call["start"], units, holders_of_result(call), res, replay, "_partition_write_loads")
        inp, exp, summ = partition_case(call)
        coq.append((inp, exp))
        meta.append(replay)
        res.case(replay, nontrivial=spec["W"] >= 2 and len(units) >= 1)
        res.count("direct.W", spec["W"])
        res.count("direct.n_units", len(units))
        if k < nrand:
            res.count("direct.zero_size_units", sum(1 for s in units.values() if s == 0))
    res.count("direct.cases", len(coq))
    bad, errs = coqrun.run_cases("C06_d", IMPORTS, "obs_partition", coq, shard=400, in_type=PTYPE)
    for e in errs:
        res.mismatches.append(Mismatch("partition:_partition_write_loads~model", "coqc error", None, e))
    for i in bad[:50]:
        res.mismatches.append(Mismatch("partition:_partition_write_loads~model", meta[i], coq[i][1][:600], None))
    res.traces_validated += len(coq)


# =========================================================================== (2) partition_write_reqs + consolidate in the world
class Canon:
    """Entries -> model terms with canonical small ids (first occurrence) for everything compared only by equality."""
    def __init__(self, paths):
        self.pid = {p: i for i, p in enumerate(sorted(paths))}
        self.meta, self.chunk, self.other = {}, {}, {}

    def _id(self, table, key):
        return table.setdefault(key, len(table))

    def entry(self, e):
        from torchsnapshot.manifest import ChunkedTensorEntry
        from torchsnapshot.manifest_utils import is_fully_replicated_entry
        if isinstance(e, ChunkedTensorEntry):
            chunks = [([int(o) for o in c.offsets], self._id(self.chunk, repr(c))) for c in e.chunks]
            return ("EChunked", bool(e.replicated), self._id(self.meta, (e.dtype, tuple(e.shape))), chunks)
        return ("EOther", bool(is_fully_replicated_entry(e)), self._id(self.other, repr(e)))

    def eterm(self, e) -> str:
        t = self.entry(e)
        if t[0] == "EChunked":
            cs = "[" + "; ".join(f"({term(o)}, {term(i)})" for o, i in t[3]) + "]"
            return f"(EChunked {term(t[1])} {term(t[2])} {cs})"
        return f"(EOther {term(t[1])} {term(t[2])})"

    def eval_(self, e):
        t = self.entry(e)
        if t[0] == "EChunked":
            return [0, t[1], t[2], [[o, i] for o, i in t[3]]]
        return [1, t[1], t[2]]

    def mterm(self, d) -> str:
        return "[" + "; ".join(f"({term(self.pid[p])}, {self.eterm(e)})" for p, e in d.items()) + "]"

    def mval(self, d):
        return [[self.pid[p], self.eval_(e)] for p, e in d.items()]


def gen_partition_scenario(ctx: Ctx):
    rng = ctx.rng
    W = rng.choice([1, 2, 2, 3, 3, 4, 5, 6, 7, 8])
    chunk = rng.choice([4, 8, 16, 40, 64, 10 ** 9])
    nrep = rng.randint(1, 6)
    rep = [gen_objspec(rng) for _ in range(nrep)]
    rep = [s for s in rep if s[0] != "p"] or [["t", "float32", [8], 1]]
    priv = [[s for s in (gen_objspec(rng, small=rng.random() < 0.5) for _ in range(rng.randint(0, 3))) if s[0] != "p"] for _ in range(W)]
    if rng.random() < 0.3:          # one heavily loaded rank
        priv[rng.randrange(W)].append(["t", "float32", [rng.choice([50, 200])], 3])
    names = rng.sample(["m/w", "m/b", "a", "z/k", "m/w_0", "opt/st", "B", "m/a/b", "m/c"], len(rep))
    return {"kind": "partition", "W": W, "chunk": chunk, "rep": [[n, s] for n, s in zip(names, rep)], "priv": priv}


def run_partition_scenario(spec):
    """real prepare_write + partition_write_reqs on every rank of a simulated world, then the real
    consolidate_replicated_entries on the gathered entries."""
    import copy
    from lib.world import World
    from torchsnapshot.io_preparer import prepare_write
    from torchsnapshot.partitioner import (_estimate_write_req_storage_size, consolidate_replicated_entries,
                                           partition_write_reqs)
    from torchsnapshot.pg_wrapper import PGWrapper
    W = spec["W"]
    inputs = [None] * W
    size_mismatch = []

    def fn(r):
        entries, wrs = {}, {}
        for name, s in spec["rep"]:
            e, w = prepare_write(build(s), name, r, True)
            entries[name], wrs[name] = e, w
        for i, s in enumerate(spec["priv"][r]):
            e, w = prepare_write(build(s, salt=r + 1), f"priv/p{i}", r, False)
            entries[f"priv/p{i}"], wrs[f"priv/p{i}"] = e, w
        # sizes measured by the harness itself (bytes of a tensor = element size x elements, whatever its serializer;
        # objects: their declared staging cost), NOT by the code under test; the code's own estimate is compared below
        est = {p: [independent_size(x) for x in ws] for p, ws in wrs.items()}
        for p, ws in wrs.items():
            for x, mine in zip(ws, est[p]):
                theirs = _estimate_write_req_storage_size(x)
                if theirs != mine:
                    size_mismatch.append((p, type(x.buffer_stager).__name__, getattr(getattr(x.buffer_stager, "entry", None), "dtype", None), mine, theirs))
        inputs[r] = (copy.deepcopy(entries), {p: list(ws) for p, ws in wrs.items()}, est)
        ne, nw = partition_write_reqs(entries, wrs, PGWrapper(None))
        return dict(ne), {p: list(ws) for p, ws in nw.items()}

    with _Env(TORCHSNAPSHOT_MAX_CHUNK_SIZE_BYTES_OVERRIDE=spec["chunk"]), PartitionSpy() as spy:
        world = World(W, max_steps=200000)
        results, errors = world.run(fn)
    if any(errors):
        return {"error": [repr(e) for e in errors]}
    gathered = [copy.deepcopy(results[r][0]) for r in range(W)]
    try:
        consolidated = consolidate_replicated_entries([copy.deepcopy(m) for m in gathered])
    except ValueError as e:
        consolidated = None
    return {"inputs": inputs, "results": results, "gathered": gathered, "consolidated": consolidated, "calls": spy.calls,
            "size_mismatch": size_mismatch}


_ESIZE_BY_NAME = {"torch.float64": 8, "torch.float32": 4, "torch.float16": 2, "torch.bfloat16": 2, "torch.complex128": 16,
                  "torch.complex64": 8, "torch.int64": 8, "torch.int32": 4, "torch.int16": 2, "torch.int8": 1, "torch.uint8": 1,
                  "torch.bool": 1, "torch.qint32": 4, "torch.qint8": 1, "torch.quint8": 1}


def independent_size(wr):
    st = wr.buffer_stager
    e = getattr(st, "entry", None)
    if e is not None and hasattr(e, "dtype") and hasattr(e, "shape"):
        n = 1
        for d in e.shape:
            n *= d
        return _ESIZE_BY_NAME[e.dtype] * n
    return st.get_staging_cost_bytes()


def oracle_partition_scenario(spec, run, res: Result):
    from torchsnapshot.manifest import ChunkedTensorEntry
    from torchsnapshot.manifest_utils import is_replicated_entry
    replay = spec
    W = spec["W"]
    if "error" in run:
        res.failures.append(Failure("C06:partition-raised", f"partition_write_reqs raised: {run['error']}", replay))
        return
    rep_names = [n for n, _ in spec["rep"]]
    ent0, wrs0, est0 = run["inputs"][0]
    # units as the property words them: a whole object, or each chunk of a chunked tensor
    units = {}
    for n in rep_names:
        if isinstance(ent0[n], ChunkedTensorEntry):
            for i, s in enumerate(est0[n]):
                units[(n, i)] = s
        else:
            units[(n, None)] = sum(est0[n])
    holders = {}
    for r in range(W):
        _, orig_wrs, _ = run["inputs"][r]
        _, nw = run["results"][r]
        for n in rep_names:
            kept = [next(i for i, o in enumerate(orig_wrs[n]) if o is w) for w in nw.get(n, [])]
            if isinstance(ent0[n], ChunkedTensorEntry):
                for i in kept:
                    holders.setdefault((n, i), []).append(r)
            elif kept:
                full = sorted(kept) == list(range(len(orig_wrs[n])))
                holders.setdefault((n, None), []).extend([r] if full else [r, r])
    start = [sum(sum(v) for p, v in run["inputs"][r][2].items() if p.startswith("priv/")) for r in range(W)]
    oracle_partition(start, units, holders, res, replay, "partition_write_reqs")
    # private write requests are all kept
    for r in range(W):
        _, orig_wrs, _ = run["inputs"][r]
        _, nw = run["results"][r]
        for p, ws in orig_wrs.items():
            if p.startswith("priv/") and [id(x) for x in nw.get(p, [])] != [id(x) for x in ws]:
                res.failures.append(Failure("C06:private-write-requests-changed", f"rank {r}: write requests of private {p} changed", replay))
    # consolidation
    cons = run["consolidated"]
    if cons is None:
        res.failures.append(Failure("C06:consolidate-raised", "consolidate_replicated_entries raised ValueError on partitioned entries", replay))
        return
    for n in rep_names:
        e = cons[0].get(n)
        if e is None or e != ent0[n]:
            what = "missing under rank 0" if e is None else "differs from the complete entry"
            if e is not None and isinstance(e, ChunkedTensorEntry) and isinstance(ent0[n], ChunkedTensorEntry):
                offs = [c.offsets for c in e.chunks]
                if offs != sorted(offs):
                    what = f"chunks not sorted by offsets: {offs}"
                elif sorted(map(repr, e.chunks)) != sorted(map(repr, ent0[n].chunks)):
                    what = f"chunk list is not a permutation of the object's chunks: {offs} vs {[c.offsets for c in ent0[n].chunks]}"
            res.failures.append(Failure("C06:consolidated-replicated-entry-incomplete", f"replicated {n}: consolidated entry {what}", replay))
        for r in range(1, W):
            if n in cons[r]:
                res.failures.append(Failure("C06:replicated-entry-not-only-under-rank0", f"replicated {n} also under rank {r} after consolidation", replay))
    for r in range(W):
        want = {p: e for p, e in run["inputs"][r][0].items() if not is_replicated_entry(e)}
        have = {p: e for p, e in cons[r].items() if p not in rep_names}
        if want != have:
            res.failures.append(Failure("C06:private-entry-changed", f"rank {r}: private entries changed by partition/consolidation", replay))


def check_partition_world(ctx: Ctx, res: Result):
    from torchsnapshot.manifest_utils import is_replicated_entry
    pc, pmeta, sc, smeta, cc, cmeta = [], [], [], [], [], []
    for _ in range(ctx.n(90, 500)):
        spec = gen_partition_scenario(ctx)
        run = run_partition_scenario(spec)
        res.case(spec, nontrivial=spec["W"] >= 2)
        res.count("world.W", spec["W"])
        res.count("world.chunk_threshold", spec["chunk"])
        oracle_partition_scenario(spec, run, res)
        if "error" in run:
            continue
        for sm in run.get("size_mismatch", [])[:3]:
            res.mismatches.append(Mismatch("sizes:_estimate_write_req_storage_size~tensor-bytes", {"path": sm[0], "stager": sm[1], "dtype": sm[2]},
                                           f"code estimates {sm[4]} bytes", f"{sm[3]} bytes"))
        from torchsnapshot.manifest import ChunkedTensorEntry
        res.count("world.replicated_chunked", sum(1 for n, _ in spec["rep"] if isinstance(run["inputs"][0][0][n], ChunkedTensorEntry)))
        for call in run["calls"]:
            inp, exp, _ = partition_case(call)
            pc.append((inp, exp)); pmeta.append(spec)
        if len(run["calls"]) != 1:
            res.mismatches.append(Mismatch("partition:_partition_write_loads~model", spec, f"{len(run['calls'])} partitioning calls", "1"))
            continue
        call = run["calls"][0]
        allpaths = set()
        for r in range(spec["W"]):
            allpaths |= set(run["inputs"][r][0].keys())
        cn = Canon(allpaths)
        for r in range(spec["W"]):
            ents, orig_wrs, _ = run["inputs"][r]
            rep_ents = {p: e for p, e in ents.items() if is_replicated_entry(e)}
            rl = [(cn.pid[w.logical_path], int(w.write_req_idx), int(w.size)) for w in call["result"][r]]
            ne, nw = run["results"][r]
            got_e = {p: e for p, e in ne.items() if p in rep_ents}
            got_w = [[cn.pid[p], [next(i for i, o in enumerate(orig_wrs[p]) if o is w) for w in ws]] for p, ws in nw.items() if p in rep_ents]
            sc.append((f"({cn.mterm(rep_ents)}, {term(rl)})", val([cn.mval(got_e), got_w])))
            smeta.append({"rank": r, **spec})
        inp = "[" + "; ".join(cn.mterm(m) for m in run["gathered"]) + "]"
        cc.append((inp, val(None if run["consolidated"] is None else [[cn.mval(m) for m in run["consolidated"]]])))
        cmeta.append(spec)
    for tag, fn, cases, meta, where, ty in (
            ("C06_wp", "obs_partition", pc, pmeta, "partition:_partition_write_loads~model", PTYPE),
            ("C06_ws", "obs_select", sc, smeta, "select:partition_write_reqs~model", STYPE),
            ("C06_wc", "obs_consolidate", cc, cmeta, "consolidate:consolidate_replicated_entries~model", CTYPE)):
        bad, errs = coqrun.run_cases(tag, IMPORTS, fn, cases, shard=200, in_type=ty)
        for e in errs:
            res.mismatches.append(Mismatch(where, "coqc error", None, e))
        for i in bad[:20]:
            res.mismatches.append(Mismatch(where, meta[i], cases[i][1][:800], cases[i][0][:800]))
        res.traces_validated += len(cases)


# =========================================================================== (3) Snapshot.take + restore
def gen_take_scenario(ctx: Ctx):
    """m/<k>: identical on every rank (replication candidates); m/<extra>: matches the globs that m/<k> match but is
    absent on at least one rank; p/r<r>k<i>, p/rv<r>: per-rank private state under rank-specific names (absent on the
    other ranks, so private even under "**")."""
    rng = ctx.rng
    W = rng.choice([1, 2, 2, 3, 3, 4, 5, 6, 8])
    nrep = rng.randint(1, 5)
    keys = rng.sample(["w0", "w1", "w2", "bias", "cfg", "obj", "emb"], nrep)
    m = {k: gen_objspec(rng) for k in keys}
    priv = []
    for r in range(W):
        d = {f"r{r}k{i}": gen_objspec(rng, small=True) for i in range(rng.randint(0, 3))}
        d[f"rv{r}"] = ["p", r]
        priv.append(d)
    extras = {}
    if W >= 2 and rng.random() < 0.7:
        for name in rng.sample(["extra", "ex2"], rng.randint(1, 2)):
            absent = set(rng.sample(range(W), rng.randint(1, W - 1)))
            extras[name] = {str(r): gen_objspec(rng, small=True) for r in range(W) if r not in absent}
    mode = rng.choice(["all", "m/*", "exact", "exact", "none", "m/*", "overlap", "overlap"])
    if mode == "overlap":
        # several patterns matching the same path (a path must be counted once however many globs match it)
        k0 = rng.choice(keys)
        globs = rng.sample(["m/*", "m/" + k0, "m/" + k0[0] + "*", "*/" + k0, "m/**"], rng.randint(2, 4))
    elif mode == "all":
        globs = ["**"]
    elif mode == "m/*":
        globs = ["m/*"]
    elif mode == "exact":
        globs = ["m/" + k for k in rng.sample(keys, rng.randint(1, len(keys)))] + (["m/extra"] if "extra" in extras else [])
    else:
        globs = []
    return {"kind": "take", "W": W, "chunk": rng.choice([4, 8, 16, 40, 10 ** 9]), "batching": rng.random() < 0.5,
            "slab": rng.choice([16, 64, 10 ** 9]), "m": m, "priv": priv, "extras": extras, "globs": globs}


def take_paths(spec, r):
    return ["m/" + k for k in spec["m"]] + ["m/" + k for k, per in spec["extras"].items() if str(r) in per] + \
           ["p/" + k for k in spec["priv"][r]]


def take_states(spec, r, for_restore=False):
    from torchsnapshot import StateDict
    m = {k: build(s) for k, s in spec["m"].items()}
    for name, per in spec["extras"].items():
        if str(r) in per:
            m[name] = build(per[str(r)], salt=r + 1)
    p = {k: build(s, salt=r + 1) for k, s in spec["priv"][r].items()}
    if for_restore:
        m = {k: blank(v) for k, v in m.items()}
        p = {k: blank(v) for k, v in p.items()}
    return {"m": StateDict(**m), "p": StateDict(**p)}


def leaf_entries(manifest):
    """(manifest path, leaf entry with a location) for every payload-bearing entry, chunks/shards expanded."""
    from torchsnapshot.manifest import ChunkedTensorEntry, ObjectEntry, ShardedTensorEntry, TensorEntry
    out = []
    for path, e in manifest.items():
        if isinstance(e, (ChunkedTensorEntry,)):
            out += [(path, c.tensor) for c in e.chunks]
        elif isinstance(e, ShardedTensorEntry):
            out += [(path, s.tensor) for s in e.shards]
        elif isinstance(e, (TensorEntry, ObjectEntry)):
            out.append((path, e))
    return out


def run_take_scenario(ctx: Ctx, spec):
    from lib.world import World
    from torchsnapshot import Snapshot
    W = spec["W"]
    root = ctx.scratch("c06take")
    path = os.path.join(root, "snap")
    originals = [take_states(spec, r) for r in range(W)]

    def fn(r):
        Snapshot.take(path, originals[r], replicated=list(spec["globs"]))
        target = take_states(spec, r, for_restore=True)
        Snapshot(path).restore(target)
        return {k: dict(v) for k, v in target.items()}

    try:
        with _Env(TORCHSNAPSHOT_MAX_CHUNK_SIZE_BYTES_OVERRIDE=spec["chunk"],
                  TORCHSNAPSHOT_DISABLE_BATCHING=None if spec["batching"] else "1",
                  TORCHSNAPSHOT_SLAB_SIZE_THRESHOLD_BYTES_OVERRIDE=spec["slab"],
                  TORCHSNAPSHOT_PER_RANK_MEMORY_BUDGET_BYTES=10 ** 9), PartitionSpy() as spy:
            world = World(W, max_steps=400000)
            results, errors = world.run(fn)
            manifest = None
            if not any(errors):
                manifest = Snapshot(path).get_manifest()
    finally:
        shutil.rmtree(root, ignore_errors=True)
    return {"results": results, "errors": errors, "events": world.events, "manifest": manifest, "calls": spy.calls,
            "originals": originals, "deadlock": world.deadlock}


def oracle_take(spec, run, res: Result):
    import fnmatch
    from torchsnapshot.manifest import ChunkedTensorEntry, PrimitiveEntry
    from torchsnapshot.manifest_utils import is_fully_replicated_entry
    replay = spec
    W = spec["W"]
    if any(run["errors"]):
        res.failures.append(Failure("C06:take-or-restore-raised", f"take/restore raised: {[repr(e)[:200] for e in run['errors'] if e]}", replay))
        return
    man = run["manifest"]
    writes = [e for e in run["events"] if e["kind"] == "write_end" and not e["path"].endswith(".snapshot_metadata")]
    by_path = {}
    for e in writes:
        by_path.setdefault(e["path"], []).append(e)

    # which logical paths must be replicated: match a glob and are present on every rank
    paths_of = [take_paths(spec, r) for r in range(W)]
    expect_rep = set()
    for lp in paths_of[0]:
        if any(fnmatch.fnmatch(lp, g) for g in spec["globs"]) and all(lp in paths_of[r] for r in range(W)):
            expect_rep.add(lp)
    # (a) replicated objects: in the manifest once, under rank 0, marked replicated; never under another rank
    for lp in sorted(expect_rep):
        e = man.get("0/" + lp)
        if e is None or not is_fully_replicated_entry(e):
            res.failures.append(Failure("C06:replicated-object-not-recorded-as-replicated",
                                        f"{lp} is on all ranks and matches {spec['globs']} but manifest has {e!r:.120}", replay))
        for r in range(1, W):
            if f"{r}/{lp}" in man:
                res.failures.append(Failure("C06:replicated-entry-not-only-under-rank0", f"{lp} also recorded under rank {r}", replay))
    # (b) objects absent on some rank (or not matching) stay private to each rank that has them
    for r in range(W):
        for lp in paths_of[r]:
            if lp in expect_rep:
                continue
            e = man.get(f"{r}/{lp}")
            if e is None or is_fully_replicated_entry(e):
                res.failures.append(Failure("C06:absent-somewhere-not-private",
                                            f"{lp} of rank {r} (not on all ranks / not matching) is not a private entry: {e!r:.120}", replay))
                continue
            for _, leaf in leaf_entries({lp: e}):
                if not spec["batching"] and not leaf.location.startswith(f"{r}/"):
                    res.failures.append(Failure("C06:private-object-outside-own-prefix",
                                                f"{lp} of rank {r} stored at {leaf.location}", replay))
                evs = by_path.get(leaf.location, [])
                if len(evs) != 1 or evs[0]["rank"] != r:
                    res.failures.append(Failure("C06:private-object-not-written-by-owner",
                                                f"{lp} of rank {r} at {leaf.location}: written by {[x['rank'] for x in evs]}", replay))
        for name, per in spec["extras"].items():
            if str(r) not in per and f"{r}/m/{name}" in man:
                res.failures.append(Failure("C06:absent-somewhere-not-private", f"m/{name} recorded under rank {r}, which does not have it", replay))
    # (c) every replicated payload written exactly once, by one rank
    rep_leaves = []
    for lp in sorted(expect_rep):
        e = man.get("0/" + lp)
        if e is not None:
            rep_leaves += leaf_entries({lp: e})
    for lp, leaf in rep_leaves:
        evs = by_path.get(leaf.location, [])
        if len(evs) != 1:
            res.failures.append(Failure("C06:replicated-write-request-not-exactly-once",
                                        f"replicated {lp} at {leaf.location}: written {len(evs)} times by ranks {[x['rank'] for x in evs]}", replay))
    if not spec["batching"]:
        for p, evs in by_path.items():
            if p.startswith("replicated/") and len(evs) != 1:
                res.failures.append(Failure("C06:replicated-write-request-not-exactly-once",
                                            f"{p}: written {len(evs)} times by ranks {[x['rank'] for x in evs]}", replay))
    # (d) bytes: everything written is referenced once by the manifest -> replicated bytes = sum of the objects' sizes
    total_written = sum(e["size"] for e in writes)
    referenced = 0
    for _, leaf in leaf_entries(man):
        br = getattr(leaf, "byte_range", None)
        if br is not None:
            referenced += br[1] - br[0]
        else:
            evs = by_path.get(leaf.location, [])
            referenced += evs[0]["size"] if evs else 0
    if total_written != referenced:
        res.failures.append(Failure("C06:replicated-bytes-not-sum-of-sizes",
                                    f"bytes written by the job {total_written} != bytes of the recorded objects {referenced} "
                                    f"(W={W}, replicated={sorted(expect_rep)})", replay))
    if not spec["batching"]:
        rep_written = sum(e["size"] for e in writes if e["path"].startswith("replicated/"))
        rep_sizes = sum(by_path[leaf.location][0]["size"] for _, leaf in rep_leaves if leaf.location in by_path)
        if rep_written != rep_sizes:
            res.failures.append(Failure("C06:replicated-bytes-not-sum-of-sizes",
                                        f"replicated bytes written {rep_written} != sum of replicated object sizes {rep_sizes}", replay))
    # (e) balance, on what was really written, with the code's size estimate and its starting loads
    if run["calls"] and not spec["batching"]:
        call = run["calls"][0]
        ents0 = call["entries"][0]
        units = units_of_call(call)
        loc = {}
        for p, e in ents0.items():
            if isinstance(e, ChunkedTensorEntry):
                for i, c in enumerate(e.chunks):
                    loc[c.tensor.location] = (p, i)
            elif not isinstance(e, PrimitiveEntry):
                loc[e.location] = (p, None)
        holders = {}
        for pth, evs in by_path.items():
            if pth in loc:
                p, i = loc[pth]
                key = (p, i) if (p, i) in units else (p, None)
                for ev in evs:
                    holders.setdefault(key, []).append(ev["rank"])
        oracle_partition([int(x) for x in call["start"]], units, holders, res, replay, "Snapshot.take (storage writes)")
    # (f) restore: the complete replicated object on every rank, private state only from the own rank
    for r in range(W):
        got, orig = run["results"][r], run["originals"][r]
        for sk in ("m", "p"):
            for k, v in orig[sk].items():
                if k not in got[sk] or not same(v, got[sk][k]):
                    rep = f"{sk}/{k}" in expect_rep
                    res.failures.append(Failure("C06:restore-incomplete-replicated" if rep else "C06:restore-wrong-private",
                                                f"rank {r}: restored {sk}/{k} differs from what rank {r} saved ({'replicated' if rep else 'private'})", replay))


def check_take(ctx: Ctx, res: Result):
    pc, pmeta = [], []
    for _ in range(ctx.n(45, 220)):
        spec = gen_take_scenario(ctx)
        run = run_take_scenario(ctx, spec)
        res.case(spec, nontrivial=spec["W"] >= 2 and bool(spec["globs"]))
        res.count("take.W", spec["W"])
        res.count("take.globs", ",".join(spec["globs"])[:30] or "none")
        res.count("take.batching", spec["batching"])
        res.count("take.absent_somewhere_keys", len(spec["extras"]))
        oracle_take(spec, run, res)
        for call in run["calls"]:
            inp, exp, _ = partition_case(call)
            pc.append((inp, exp)); pmeta.append(spec)
    bad, errs = coqrun.run_cases("C06_tp", IMPORTS, "obs_partition", pc, shard=200, in_type=PTYPE)
    for e in errs:
        res.mismatches.append(Mismatch("partition:_partition_write_loads~model", "coqc error", None, e))
    for i in bad[:20]:
        res.mismatches.append(Mismatch("partition:_partition_write_loads~model", pmeta[i], pc[i][1][:800], pc[i][0][:800]))
    res.traces_validated += len(pc)


# =========================================================================== (4) _calculate_replicated_entries
def gen_paths_scenario(ctx: Ctx):
    rng = ctx.rng
    W = rng.choice([1, 2, 3, 4, 5, 8])
    universe = ["m/w", "m/b", "m/sub/w", "opt/state", "opt/lr", "m", "x", "m/w_0", "[m]/w", "m/*"]
    common = rng.sample(universe, rng.randint(1, 7))
    drop = rng.choice([0.0, 0.05, 0.15])
    keys = []
    for r in range(W):
        ks = [k for k in common if rng.random() >= drop]
        ks += [k for k in rng.sample(universe, rng.randint(0, 3)) if k not in ks]
        rng.shuffle(ks)
        keys.append(ks)
    sh = rng.choice([0.0, 0.0, 0.1])
    sharded = [[k for k in ks if rng.random() < sh] for ks in keys]
    globs = rng.choice([["**"], ["**"], ["m/*"], ["m/**"], ["*"], ["m/w", "opt/lr"], [], ["m/?", "opt/*"], ["[m]/w"], ["m/w*", "x"],
                        # overlapping patterns: several globs match one path
                        ["m/*", "m/w"], ["m/**", "*/w", "m/w*"], ["**", "m/*"], ["opt/*", "opt/lr", "*/lr"], ["m/?", "m/w", "m/b", "*"]])
    return {"kind": "paths", "W": W, "keys": keys, "sharded": sharded, "globs": globs}


def run_paths_scenario(spec):
    import torch
    from torch.distributed._shard.sharded_tensor import ShardedTensor
    from lib.world import World
    from torchsnapshot import Snapshot
    from torchsnapshot.pg_wrapper import PGWrapper
    W = spec["W"]

    def fn(r):
        flat = {}
        for k in spec["keys"][r]:
            flat[k] = torch.Tensor._make_wrapper_subclass(ShardedTensor, (2,)) if k in spec["sharded"][r] else torch.zeros(2)
        return sorted(Snapshot._calculate_replicated_entries(flat, set(spec["globs"]), PGWrapper(None)))
    world = World(W)
    results, errors = world.run(fn)
    return results, errors


def oracle_paths(spec, results, errors, res: Result):
    import fnmatch
    W = spec["W"]
    if any(errors):
        res.failures.append(Failure("C06:calculate-replicated-raised", f"{[repr(e)[:200] for e in errors if e]}", spec))
        return
    universe = set(k for ks in spec["keys"] for k in ks)
    for p in sorted(universe):
        everywhere = all(p in spec["keys"][r] and p not in spec["sharded"][r] for r in range(W))
        want = everywhere and any(fnmatch.fnmatch(p, g) for g in spec["globs"])
        for r in range(W):
            has = p in results[r]
            if has and not want:
                res.failures.append(Failure("C06:absent-somewhere-treated-as-replicated",
                                            f"rank {r}: {p!r} treated as replicated but it is missing/sharded on some rank or matches no glob "
                                            f"(keys={spec['keys']}, globs={spec['globs']})", spec))
                return
            if want and not has:
                res.failures.append(Failure("C06:replicated-everywhere-not-recognised",
                                            f"rank {r}: {p!r} is on all ranks and matches {spec['globs']} but is not treated as replicated", spec))
                return


def check_paths(ctx: Ctx, res: Result):
    import fnmatch
    cases, meta = [], []
    for _ in range(ctx.n(120, 800)):
        spec = gen_paths_scenario(ctx)
        results, errors = run_paths_scenario(spec)
        res.case(spec, nontrivial=spec["W"] >= 2 and bool(spec["globs"]))
        res.count("paths.W", spec["W"])
        oracle_paths(spec, results, errors, res)
        if any(errors):
            continue
        res.count("paths.n_replicated", len(results[0]))
        universe = sorted(set(k for ks in spec["keys"] for k in ks))
        pid = {p: i for i, p in enumerate(universe)}
        gid = {g: i for i, g in enumerate(spec["globs"])}
        tbl = [(pid[p], gid[g]) for p in universe for g in spec["globs"] if fnmatch.fnmatch(p, g)]
        ranks = [([pid[k] for k in spec["keys"][r]], [pid[k] for k in spec["sharded"][r]]) for r in range(spec["W"])]
        # rank 0's answer in rank 0's dict order is what the model computes; every rank must return the same set
        exp = [pid[k] for k in spec["keys"][0] if k in results[0]]
        for r in range(spec["W"]):
            if results[r] != results[0]:
                res.mismatches.append(Mismatch("replicated_paths:_calculate_replicated_entries~model", spec, results[r], results[0]))
        tt = "[" + "; ".join(f"({term(a)}, {term(b)})" for a, b in tbl) + "]"
        rr = "[" + "; ".join(f"({term(a)}, {term(b)})" for a, b in ranks) + "]"
        cases.append((f"({tt}, {term(list(gid.values()))}, {rr})", val(exp)))
        meta.append(spec)
    bad, errs = coqrun.run_cases("C06_rp", IMPORTS, "obs_replicated_paths", cases, shard=300, in_type=RTYPE)
    for e in errs:
        res.mismatches.append(Mismatch("replicated_paths:_calculate_replicated_entries~model", "coqc error", None, e))
    for i in bad[:20]:
        res.mismatches.append(Mismatch("replicated_paths:_calculate_replicated_entries~model", meta[i], cases[i][1], cases[i][0][:600]))
    res.traces_validated += len(cases)


# ===========================================================================
def correspond(ctx: Ctx) -> Result:
    res = Result(rule=RULE)
    check_direct(ctx, res)
    check_partition_world(ctx, res)
    check_take(ctx, res)
    check_paths(ctx, res)
    return res


def replay(ctx: Ctx, data):
    r = Result()
    kind = data.get("kind")
    if kind == "direct":
        call = run_direct(data)
        oracle_partition(call["start"], units_of_call(call), holders_of_result(call), r, data, "_partition_write_loads")
    elif kind == "partition":
        oracle_partition_scenario(data, run_partition_scenario(data), r)
    elif kind == "take":
        oracle_take(data, run_take_scenario(ctx, data), r)
    elif kind == "paths":
        results, errors = run_paths_scenario(data)
        oracle_paths(data, results, errors, r)
    return r.failures[0] if r.failures else None


MANIFEST = {
    "level_text": ("Machine-checked proof (Coq 8.16.1) over an executable model of partitioner.py and "
                   "Snapshot._calculate_replicated_entries whose choice of the writer rank (first minimum), load update, merge "
                   "order, dedup default and 'present on all ranks' test are regenerated from the source by a fail-closed "
                   "Python-ast translator on every run: for every world size W >= 1, every starting-load vector, every list of "
                   "replicated whole-path and chunk units with sizes >= 0 and every iteration order of the chunk set, each unit "
                   "is assigned to exactly one rank (counting invariant; replicated bytes = sum of sizes), a rank that received "
                   "work ends at most the size of the last unit it received above every other rank, consolidation yields the "
                   "sorted permutation of all chunks exactly once under rank 0 and leaves private entries untouched, and a path "
                   "absent (or sharded, or unmatched) on any rank is never replicated, for every glob matcher. The model is tied "
                   "to the code on every run by differential execution of the real _partition_write_loads (bounded-exhaustive in "
                   "the thorough tier), partition_write_reqs, consolidate_replicated_entries and _calculate_replicated_entries, "
                   "and the property is evaluated directly on real Snapshot.take/restore runs of 1-8 simulated ranks (storage "
                   "write log, manifest, restored values)."),
    "level_note": ("Trusted: Coq kernel+VM, the translator, the hand-written model and the differential harness (simulated "
                   "multi-rank world, witness search for the set iteration order - checked by the model). Partially replicated "
                   "DTensor entries and ranks disagreeing on a replicated path's write loads are not modelled; torch.save/load, "
                   "fnmatch and the file system are runtime. No axioms."),
    "technique": "Coq invariant/counting proofs over source-translated choice constants + differential correspondence and direct oracle in a simulated multi-rank world",
    "design_ref": "DESIGN.md section 5, C06",
}
