"""C19 - take has no side effects on app state or RNG; RNG resumes identically after restore.

Real Snapshot.take / async_take(+wait) / restore run on statefuls that draw a scripted number of torch.rand(1) inside
state_dict() and load_state_dict(), with an RNGState at every position of the app state (dict order and sorted key
order) or absent.  The global RNG state is identified by the SHA-256 of torch.get_rng_state() and mapped to
(seed, number of draws) by a table computed at start; the Coq interpreter (model/RngObs.v) run on the skeletons
translated from snapshot.py predicts the same pair (correspondence), the property is evaluated directly (oracle), and
the order of application-visible calls is compared with the model's trace.  Every tensor / object of the state is
fingerprinted (SHA-256 of the bytes and of the whole underlying storage, id(), container structure and order) before
and after take.  Runs happen inside lib.world.World (W = 1: one simulated rank, in-memory store for async_take;
a few W = 2 runs: both ranks are threads of one process and therefore share one torch generator)."""
from __future__ import annotations

import hashlib
import os
import pickle
import random
import shutil

from lib import coqrun
from lib.core import Ctx, Failure, Mismatch, Result
from lib.tocoq import term, val

PROP = "C19"
PROPS_FILE = "props/C19.v"
GEN = ["gen_rng"]
CORRESPONDENCES = ["rng:real-global-rng-state~model(after take, saved value, after restore)",
                   "rng:order-of-application-calls~skeleton-trace"]
RULE = ("a fixed corpus (RNGState first / middle / last in sorted key order x first / last in dict order x absent; drawing "
        "statefuls before and after it; take and async_take; draws in load_state_dict at restore) followed by seeded random "
        "cases: 0-4 statefuls with 0-7 torch.rand(1) draws in state_dict() and 0-5 in load_state_dict(), payloads of tensors "
        "(10 dtypes, contiguous / transposed / view of a larger storage), nested lists and dicts, pickled objects and "
        "primitives; batching on/off, small chunk and slab thresholds; between take and restore: extra draws or a re-seed; "
        "restore into fresh statefuls with other draw counts; W = 2 runs in the simulated world. A case is one "
        "take -> draws -> restore sequence; non-trivial = at least one stateful draws; distinct by case description.")
TRUSTED = [
    "Coq 8.16.1 kernel and vm_compute; theorems closed under the global context",
    "translator/gen_rng.py: classification of the statements of _take_impl / take / async_take / restore / _load_stateful, "
    "exact-body checks of _pop_rng_state, _gather_keys and RNGState, and the identifier-based reachability scan for torch "
    "RNG calls (fail closed)",
    "hand-written interpreter coq/model/Rng.v (statement semantics over an abstract RNG state), tied to the code by the "
    "state and call-order correspondences of this harness",
    "torch.get_rng_state()/set_rng_state() capture and restore the whole state of the default CPU generator (torch runtime)",
    "harness/props/C19.py, lib/world.py (simulated ranks), lib/tocoq.py",
]
ASSUMPTIONS = [
    "only the default CPU generator is considered (RNGState saves torch.get_rng_state() only; CUDA generators, numpy and "
    "Python's `random` are outside: take itself calls Python's random.randint in _generate_random_int64 - "
    "gen_take_uses_python_random = true - which does not touch torch's generator)",
    "torch library calls made by torchsnapshot outside the blacklist of translator/gen_rng.py (torch.save, clone, "
    "contiguous, numpy(), torch.empty ...) draw no randomness; pickling an application object (torch.save of an object "
    "leaf) and the private _custom_tensor_prepare_func hook run application code that is assumed not to draw",
    "application code runs on the calling thread between capture and re-apply only through state_dict(): other "
    "application threads drawing concurrently are not modelled",
    "'take does not modify tensors / objects / containers' is OBSERVED on every run (fingerprints), not proved: the "
    "byte-level behaviour of torch is runtime; the proved part is the RNG order and that _pop_rng_state works on a copy",
    "W = 2 runs share one torch generator between the two simulated ranks (threads of one process); the model is given "
    "the merged view (per key: the draws of both ranks)",
]
IMPORTS = "From TS Require Import model.RngObs.\n"
IN_STATE = "(list ent * list Z * GZ) * (list ent * list Z * GZ) * Z"
IN_TRACE = "(list ent * list Z) * (list ent * list Z) * Z"

SEEDS = [11, 22, 33]
KMAX = 160
RNG_KEYS = {"first": "a_rng", "middle": "m_rng", "last": "z_rng"}
OTHER_KEYS = ["b0", "c1", "n2", "p3", "y4"]
DTYPES = ["float32", "float64", "float16", "bfloat16", "int64", "int32", "int16", "int8", "uint8", "bool", "complex64"]


# --------------------------------------------------------------------------- RNG identification
def rng_hash():
    import torch
    return hashlib.sha256(torch.get_rng_state().numpy().tobytes()).hexdigest()


_TABLE = None


def table():
    """hash of the generator state -> (seed, draws since seeding)"""
    global _TABLE
    if _TABLE is None:
        import torch
        saved = torch.get_rng_state()
        t = {}
        for s in SEEDS:
            torch.manual_seed(s)
            for i in range(KMAX + 1):
                t[rng_hash()] = (s, i)
                torch.rand(1)
        torch.set_rng_state(saved)
        _TABLE = t
    return _TABLE


def ident(h):
    return list(table().get(h, (-7, -7)))


def peek_rand():
    """the next torch.rand(1) without consuming it"""
    import torch
    st = torch.get_rng_state()
    x = torch.rand(1).item()
    torch.set_rng_state(st)
    return x


# --------------------------------------------------------------------------- application state
class Blob:
    """an application object that is neither a container nor a primitive: saved with torch.save"""
    def __init__(self, n):
        self.items = list(range(n))
        self.tag = {"n": n}

    def __eq__(self, o):
        return isinstance(o, Blob) and self.items == o.items and self.tag == o.tag


def make_tensor(rng: random.Random):
    import torch
    dt = getattr(torch, rng.choice(DTYPES))
    layout = rng.choice(["contig", "contig", "transposed", "view", "scalar", "empty"])
    n = rng.choice([1, 2, 3, 5, 8])
    if layout == "scalar":
        base = torch.arange(1, 2)
    elif layout == "empty":
        base = torch.arange(0, 0)
    elif layout == "transposed":
        base = torch.arange(1, 1 + n * 3).reshape(n, 3)
    elif layout == "view":
        base = torch.arange(0, 4 * n + 8)
    else:
        base = torch.arange(1, 1 + n * 2).reshape(n, 2)
    t = (base % 2 == 0) if dt == torch.bool else base.to(dt)
    if layout == "transposed":
        t = t.t()
    elif layout == "view":
        t = t[3:3 + 2 * n].reshape(n, 2)
    elif layout == "scalar":
        t = t.reshape(())
    return t


def make_payload(seed: int, fill=True):
    """A state dict described by a seed.  fill=False: same structure, tensors zeroed, other leaves blanked
    (the target of a restore)."""
    rng = random.Random(seed)
    d = {}
    for i in range(rng.randint(1, 4)):
        kind = rng.choice(["tensor", "tensor", "list", "dict", "obj", "prim"])
        k = f"f{i}"
        if kind == "tensor":
            d[k] = make_tensor(rng)
        elif kind == "list":
            d[k] = [make_tensor(rng), rng.randint(0, 9), [make_tensor(rng)]]
        elif kind == "dict":
            d[k] = {"u": make_tensor(rng), 3: "three", "w": {"x": 1.5}}
        elif kind == "obj":
            d[k] = rng.choice([Blob(rng.randint(0, 3)), (1, 2, 3), {1, 2}, bytearray(b"ab")])
        else:
            d[k] = rng.choice([7, "s", 2.5, True, b"xy"])
    return d if fill else blank(d)


def blank(x):
    import torch
    if isinstance(x, torch.Tensor):
        return torch.zeros_like(x)
    if type(x) is dict:
        return {k: blank(v) for k, v in x.items()}
    if type(x) is list:
        return [blank(v) for v in x]
    return 0


class Drawer:
    """A stateful that draws `a` random numbers in state_dict() and `b` in load_state_dict()."""
    def __init__(self, kid, a, b, payload, log):
        self.kid, self.a, self.b, self.payload, self.log = kid, a, b, payload, log
        self.loaded = None

    def state_dict(self):
        import torch
        self.log.append([2, self.kid])
        for _ in range(self.a):
            torch.rand(1)
        return self.payload

    def load_state_dict(self, sd):
        import torch
        self.log.append([3, self.kid])
        for _ in range(self.b):
            torch.rand(1)
        self.loaded = sd


def make_rng_state(log, phase):
    from torchsnapshot import RNGState

    class LoggedRNGState(RNGState):
        def state_dict(self):
            if phase[0] == "take":
                log.append([1])
            return super().state_dict()

        def load_state_dict(self, sd):
            log.append([4] if phase[0] == "take" else [5])
            super().load_state_dict(sd)
    return LoggedRNGState()


def key_id(k: str) -> int:
    allk = sorted(list(RNG_KEYS.values()) + OTHER_KEYS)
    return allk.index(k)


def build_app(spec, log, phase, fill=True):
    """spec: list of [key, is_rng, a, b, payload_seed] in dict insertion order"""
    app = {}
    for k, is_rng, a, b, ps in spec:
        app[k] = make_rng_state(log, phase) if is_rng else Drawer(key_id(k), a, b, make_payload(ps, fill), log)
    return app


# --------------------------------------------------------------------------- fingerprint (no-side-effect part)
def fp(x):
    import torch
    if isinstance(x, torch.Tensor):
        raw = x.detach().contiguous()
        body = hashlib.sha256(bytes(raw.reshape(-1).view(torch.uint8).numpy().tobytes()) if raw.numel() else b"").hexdigest()[:16]
        stor = hashlib.sha256(torch.empty(0, dtype=torch.uint8).set_(x.untyped_storage()).numpy().tobytes()).hexdigest()[:16]
        return ["tensor", id(x), str(x.dtype), list(x.shape), list(x.stride()), x.storage_offset(), x.data_ptr(), body, stor]
    if type(x) is dict:
        return ["dict", id(x), [[repr(k), fp(v)] for k, v in x.items()]]
    if type(x) is list:
        return ["list", id(x), [fp(v) for v in x]]
    if isinstance(x, (int, float, str, bool, bytes)) or x is None:
        return ["prim", type(x).__name__, repr(x)]
    return ["obj", id(x), type(x).__name__, hashlib.sha256(pickle.dumps(sorted(x) if isinstance(x, set) else x)).hexdigest()[:16]]


def fingerprint(app):
    out = []
    for k, v in app.items():
        if isinstance(v, Drawer):
            out.append([k, id(v), "Drawer", id(v.payload), fp(v.payload)])
        else:
            out.append([k, id(v), type(v).__name__])
    return out


def fp_diff(a, b, path=""):
    if type(a) is not type(b) or (isinstance(a, list) and len(a) != len(b)):
        return f"{path}: {str(a)[:80]} -> {str(b)[:80]}"
    if isinstance(a, list):
        for i, (x, y) in enumerate(zip(a, b)):
            d = fp_diff(x, y, f"{path}/{i}")
            if d:
                return d
        return None
    return None if a == b else f"{path}: {a!r} -> {b!r}"


# --------------------------------------------------------------------------- knobs
class Env:
    def __init__(self, case):
        self.env = {"TORCHSNAPSHOT_DISABLE_BATCHING": "0" if case["batching"] else "1",
                    "TORCHSNAPSHOT_PER_RANK_MEMORY_BUDGET_BYTES": str(case.get("budget", 100000000))}
        if case.get("chunk"):
            self.env["TORCHSNAPSHOT_MAX_CHUNK_SIZE_BYTES_OVERRIDE"] = str(case["chunk"])
        if case.get("slab"):
            self.env["TORCHSNAPSHOT_SLAB_SIZE_THRESHOLD_BYTES_OVERRIDE"] = str(case["slab"])
        self.saved = {}

    def __enter__(self):
        for k in ("TORCHSNAPSHOT_DISABLE_BATCHING", "TORCHSNAPSHOT_PER_RANK_MEMORY_BUDGET_BYTES",
                  "TORCHSNAPSHOT_MAX_CHUNK_SIZE_BYTES_OVERRIDE", "TORCHSNAPSHOT_SLAB_SIZE_THRESHOLD_BYTES_OVERRIDE"):
            self.saved[k] = os.environ.pop(k, None)
        os.environ.update(self.env)

    def __exit__(self, *a):
        for k, v in self.saved.items():
            os.environ.pop(k, None)
            if v is not None:
                os.environ[k] = v


# --------------------------------------------------------------------------- one case on the real code
def run_case(ctx: Ctx, case):
    """case: {W, mode, seed, c0, take: [spec per rank], restore: [spec per rank], between, batching, chunk, slab}
    Returns the observations (dict) of the real execution."""
    import torch
    from lib.world import World
    from torchsnapshot import Snapshot

    table()
    # this torch loads pickles with weights_only=True: the application registers its own class, as an application would
    torch.serialization.add_safe_globals([Blob])
    W = case["W"]
    root = ctx.scratch("c19")
    path = os.path.join(root, "snap")
    obs = {"errors": []}
    log_t, log_r = [], []
    phase = ["take"]
    try:
        with Env(case):
            torch.manual_seed(case["seed"])
            for _ in range(case["c0"]):
                torch.rand(1)
            apps = [build_app(case["take"][r], log_t, phase) for r in range(W)]
            fps = [fingerprint(a) for a in apps]
            keys_before = [list(a.keys()) for a in apps]
            vals_before = [[id(v) for v in a.values()] for a in apps]
            obs["h0"] = rng_hash()
            ret = [None] * W

            def take_fn(r):
                if case["mode"] == "take":
                    Snapshot.take(path, apps[r])
                else:
                    p = Snapshot.async_take(path, apps[r])
                    ret[r] = rng_hash()
                    p.wait()
                return True
            world = World(W)
            _, errs = world.run(take_fn)
            obs["errors"] += [f"take rank {r}: {type(e).__name__}: {e}"[:300] for r, e in enumerate(errs) if e is not None]
            obs["h_ret"] = ret[0] if W == 1 else None
            obs["h1"] = rng_hash()
            obs["r_take"] = peek_rand()
            diffs = []
            for r in range(W):
                d = fp_diff(fps[r], fingerprint(apps[r]), f"rank{r}")
                if d:
                    diffs.append(d)
                if list(apps[r].keys()) != keys_before[r] or [id(v) for v in apps[r].values()] != vals_before[r]:
                    diffs.append(f"rank{r}: app_state dict keys/values changed: {keys_before[r]} -> {list(apps[r].keys())}")
            obs["side_effects"] = diffs
            if obs["errors"]:
                return obs
            # the RNG value that went into the snapshot
            obs["saved"] = None
            rk = [k for k, is_rng, *_ in case["take"][0] if is_rng]
            if rk:
                t = Snapshot(path).read_object(f"0/{rk[0]}/rng_state")
                obs["saved"] = hashlib.sha256(t.numpy().tobytes()).hexdigest()
            # (random draws)
            b = case["between"]
            if b[0] == "reseed":
                torch.manual_seed(b[1])
            for _ in range(b[-1]):
                torch.rand(1)
            obs["hb"] = rng_hash()
            phase[0] = "restore"
            apps_r = [build_app(case["restore"][r], log_r, phase, fill=False) for r in range(W)]

            def restore_fn(r):
                Snapshot(path).restore(apps_r[r])
                return True
            world = World(W)
            _, errs = world.run(restore_fn)
            obs["errors"] += [f"restore rank {r}: {type(e).__name__}: {e}"[:300] for r, e in enumerate(errs) if e is not None]
            obs["h2"] = rng_hash()
            obs["r_restore"] = peek_rand()
            obs["log_t"], obs["log_r"] = log_t, log_r
    finally:
        shutil.rmtree(root, ignore_errors=True)
    return obs


# --------------------------------------------------------------------------- oracle
def has_rng(case):
    return any(is_rng for spec in case["take"] for _, is_rng, *_ in spec)


def app_draws_take(case):
    return sum(a for spec in case["take"] for _, is_rng, a, _b, _p in spec if not is_rng)


def oracle(case, obs):
    """the property evaluated directly -> [(signature, message)]"""
    bad = []
    m = case["mode"]
    if obs["errors"]:
        return [(f"C19:{m}:run-raised", "; ".join(obs["errors"])[:400])]
    for d in obs["side_effects"]:
        bad.append((f"C19:{m}:app-state-modified-by-take", f"{m} modified the application state: {d}"))
    t = table()
    if has_rng(case):
        if obs["h1"] != obs["h0"]:
            bad.append((f"C19:{m}:rng-state-changed-by-take-with-RNGState",
                        f"global RNG state after {m} is {ident(obs['h1'])}, before it was {ident(obs['h0'])} (seed, draws)"))
        if obs.get("h_ret") is not None and obs["h_ret"] != obs["h0"]:
            bad.append((f"C19:{m}:rng-state-changed-at-return-of-async_take",
                        f"global RNG state when async_take returned is {ident(obs['h_ret'])}, before {ident(obs['h0'])}"))
        if obs["h2"] != obs["h1"]:
            bad.append(("C19:restore:rng-state-after-restore-differs-from-after-take",
                        f"after restore {ident(obs['h2'])}, after take {ident(obs['h1'])} (seed, draws)"))
        if obs["r_restore"] != obs["r_take"]:
            bad.append(("C19:restore:first-rand-after-restore-differs", f"{obs['r_restore']} vs {obs['r_take']}"))
    else:
        exp = (case["seed"], case["c0"] + app_draws_take(case))
        if t.get(obs["h1"]) != exp:
            bad.append((f"C19:{m}:rng-drift-beyond-the-applications-own-draws",
                        f"global RNG state after {m} is {ident(obs['h1'])}, expected {list(exp)} = before + state_dict draws"))
    return bad


# --------------------------------------------------------------------------- model inputs
def merged_entries(specs):
    """entries (key id, is_rng, a, b) of the merged view of all ranks, in rank-0-first insertion order"""
    order, acc = [], {}
    for spec in specs:
        for k, is_rng, a, b, _ in spec:
            if k not in acc:
                order.append(k)
                acc[k] = [is_rng, 0, 0]
            if not is_rng:
                acc[k][1] += a
                acc[k][2] += b
    return [(key_id(k), bool(acc[k][0]), acc[k][1], acc[k][2]) for k in order]


def global_keys(specs):
    return [key_id(k) for k in sorted({k for spec in specs for k, is_rng, *_ in spec if not is_rng})]


def ent_term(es):
    return "[" + "; ".join(f"({term(k)}, {term(r)}, {term(a)}, {term(b)})" for k, r, a, b in es) + "]"


def model_inputs(case, obs):
    es_t, es_r = merged_entries(case["take"]), merged_entries(case["restore"])
    gk_t, gk_r = global_keys(case["take"]), global_keys(case["restore"])
    g0 = ident(obs["h0"])
    g1 = ident(obs["hb"])
    mode = 0 if case["mode"] == "take" else 1
    st_in = (f"(({ent_term(es_t)}, {term(gk_t)}, ({term(g0[0])}, {term(g0[1])})), "
             f"({ent_term(es_r)}, {term(gk_r)}, ({term(g1[0])}, {term(g1[1])})), {term(mode)})")
    saved = [] if obs["saved"] is None else [ident(obs["saved"])]
    st_out = val([ident(obs["h1"]), saved, 0, ident(obs["h2"]), 0])
    tr_in = f"(({ent_term(es_t)}, {term(gk_t)}), ({ent_term(es_r)}, {term(gk_r)}), {term(mode)})"
    tr_out = val([obs["log_t"], obs["log_r"]])
    if case["W"] > 1:            # the two ranks' calls interleave in one log: the per-rank call order is compared for W = 1
        return (st_in, st_out), None
    return (st_in, st_out), (tr_in, tr_out)


# --------------------------------------------------------------------------- cases
def spec_entry(rng, key, is_rng, draws=None):
    if is_rng:
        return [key, True, 0, 0, 0]
    a = draws if draws is not None else rng.choice([0, 0, 1, 2, 3, 7])
    b = rng.choice([0, 0, 1, 2, 5])
    return [key, False, a, b, rng.randrange(1 << 20)]


def restore_spec(rng, spec, same=False):
    out = []
    for k, is_rng, a, b, ps in spec:
        out.append([k, is_rng, a, b, ps] if (same or is_rng) else [k, False, rng.choice([0, 1, 4]), rng.choice([0, 2, 3]), ps])
    return out


def corpus(rng):
    cases = []
    for mode in ("take", "async"):
        for pos in ("first", "middle", "last", None):
            for dict_pos in ("front", "back"):
                others = [spec_entry(rng, k, False, draws=d) for k, d in (("b0", 2), ("n2", 0), ("y4", 3))]
                spec = list(others)
                if pos:
                    e = spec_entry(rng, RNG_KEYS[pos], True)
                    spec = [e] + spec if dict_pos == "front" else spec + [e]
                elif dict_pos == "back":
                    continue
                cases.append({"W": 1, "mode": mode, "seed": SEEDS[0], "c0": 3, "take": [spec],
                              "restore": [restore_spec(rng, spec)], "between": ["draws", 4], "batching": dict_pos == "front",
                              "chunk": None, "slab": None})
    # only an RNGState; nothing at all drawing; re-seed in between
    cases.append({"W": 1, "mode": "take", "seed": SEEDS[1], "c0": 0, "take": [[spec_entry(rng, "m_rng", True)]],
                  "restore": [[spec_entry(rng, "m_rng", True)]], "between": ["reseed", SEEDS[2], 2], "batching": True,
                  "chunk": None, "slab": None})
    return cases


def random_case(rng, W=1):
    mode = rng.choice(["take", "async"])
    pos = rng.choice(["first", "middle", "last", None, None])
    specs = []
    for r in range(W):
        keys = rng.sample(OTHER_KEYS, rng.randint(0 if pos else 1, 4))
        spec = [spec_entry(rng, k, False) for k in keys]
        if pos:
            spec.insert(rng.randint(0, len(spec)), spec_entry(rng, RNG_KEYS[pos], True))
        specs.append(spec)
    between = rng.choice([["draws", rng.choice([0, 1, 5])], ["reseed", rng.choice(SEEDS), rng.choice([0, 3])]])
    return {"W": W, "mode": mode, "seed": rng.choice(SEEDS), "c0": rng.choice([0, 1, 6]), "take": specs,
            "restore": [restore_spec(rng, s, same=rng.random() < 0.3) for s in specs], "between": between,
            "batching": rng.random() < 0.5, "chunk": rng.choice([None, None, 16, 64]), "slab": rng.choice([None, None, 24, 4096]),
            # the per-rank memory budget (take and restore): tight budgets make requests wait for budget
            "budget": rng.choice([100000000, 100000000, 1, 64, 1024])}


def case_ok_for_table(case):
    tot = case["c0"] + sum(a + b for specs in (case["take"], case["restore"]) for s in specs for _, _, a, b, _ in s) \
        + case["between"][-1] + 2
    return tot < KMAX


def correspond(ctx: Ctx) -> Result:
    res = Result(rule=RULE)
    rng = ctx.rng
    cases = corpus(rng)
    for _ in range(ctx.n(45, 500)):
        cases.append(random_case(rng, 1))
    for _ in range(ctx.n(6, 40)):
        cases.append(random_case(rng, 2))
    st_cases, tr_cases, meta, tr_meta = [], [], [], []
    for case in cases:
        if not case_ok_for_table(case):
            continue
        obs = run_case(ctx, case)
        draws = app_draws_take(case)
        res.case({k: case[k] for k in ("W", "mode", "seed", "c0", "take", "restore", "between", "batching", "chunk", "slab")},
                 nontrivial=draws > 0 or any(b for s in case["restore"] for _, r, _a, b, _ in s if not r))
        res.count("mode", case["mode"]); res.count("W", case["W"])
        rk = [k for k, is_rng, *_ in case["take"][0] if is_rng]
        res.count("rng_key", rk[0] if rk else "absent")
        if rk:
            res.count("rng_dict_position", [k for k, *_ in case["take"][0]].index(rk[0]))
        res.count("statefuls", len(case["take"][0]) - len(rk))
        res.count("state_dict_draws", draws)
        res.count("between", case["between"][0])
        for sig, msg in oracle(case, obs):
            res.failures.append(Failure(sig, msg, case))
        if obs["errors"]:
            continue
        st, tr = model_inputs(case, obs)
        st_cases.append(st); meta.append(case)
        if tr is not None:
            tr_cases.append(tr); tr_meta.append(case)
    bad, errs = coqrun.run_cases("C19_state", IMPORTS, "obs_rng", st_cases, shard=200, in_type=IN_STATE)
    for e in errs:
        res.mismatches.append(Mismatch(CORRESPONDENCES[0], "coqc error", None, e))
    for i in bad:
        res.mismatches.append(Mismatch(CORRESPONDENCES[0], meta[i], st_cases[i][1], None))
    bad, errs = coqrun.run_cases("C19_trace", IMPORTS, "obs_rng_trace", tr_cases, shard=200, in_type=IN_TRACE)
    for e in errs:
        res.mismatches.append(Mismatch(CORRESPONDENCES[1], "coqc error", None, e))
    for i in bad:
        res.mismatches.append(Mismatch(CORRESPONDENCES[1], tr_meta[i], tr_cases[i][1], None))
    res.traces_validated += len(tr_cases)
    return res


def replay(ctx: Ctx, data):
    obs = run_case(ctx, data)
    bad = oracle(data, obs)
    return Failure(bad[0][0], bad[0][1], data) if bad else None


MANIFEST = {
    "level_text": ("Machine-checked proof (Coq 8.16.1) over the statement order of Snapshot._take_impl / take / async_take / "
                   "restore / _load_stateful, translated from snapshot.py on every run: for an ABSTRACT global RNG state and "
                   "arbitrary effects of every stateful's state_dict() / load_state_dict() on it, any number of statefuls and any "
                   "position of the RNGState, (1) with an RNGState the RNG state after take equals the state before and is the "
                   "value saved, (2) without one it moves by exactly the application's own state_dict draws in global key "
                   "order, (3) the state right after restore equals the state right after take. A decidable ordering condition "
                   "is proved sound for every skeleton it accepts; per run: checker(generated skeletons) = true and no function "
                   "body reachable from take / async_take / restore contains a torch RNG call. Real take / async_take / restore "
                   "runs with drawing statefuls are compared with the model (RNG state identified via a (seed, draws) table; "
                   "order of application calls) and with the property. PARTIAL: 'take does not modify tensor bits, container "
                   "structure or object identity' is observed on every run (SHA-256 of tensor bytes and storages, id(), "
                   "structure and order before/after), not proved - torch's own behaviour is runtime."),
    "level_note": ("Trusted: Coq kernel+VM; translator/gen_rng.py (statement classification, blacklist-based reachability scan); "
                   "interpreter model/Rng.v; torch.get/set_rng_state capture the whole default CPU generator; only that generator "
                   "is covered (Python's random is used by take and is outside). No axioms."),
    "technique": "Coq proof of a reflective ordering checker over source-translated skeletons + RNG-state table correspondence and fingerprint oracle on real runs",
    "design_ref": "DESIGN.md section 5, C19",
}
