"""C16 - Chunking, subdivision, batching and tiling never change logical content."""
from __future__ import annotations

import asyncio
import itertools

from lib import coqrun
from lib.core import Ctx, Failure, Mismatch, Result
from lib.tocoq import Nat, term, val

PROP = "C16"
PROPS_FILE = "props/C16.v"
GEN: list[str] = ["gen_chunk"]
CORRESPONDENCES = [
    "chunk:torch.chunk~torch_chunk",
    "chunk:chunk_tensor~model",
    "shard:subdivide_shard~model",
    "tile:prepare_read_tiled~model",
    "batch:batch_write_requests~model",
    "batch:BatchedBufferStager~stage_slab",
    "batch:batch_read_requests~model",
]
RULE = ("chunk/subdivide/tile: shapes (0-4 dims, extents 0-4; thorough: every shape with <=3 dims and extents <=4) x element "
        "sizes {1,2,4,8} x layouts x every dim x EVERY threshold 1..total+1 (run-length encoded sweeps), each distinct plan "
        "also read back through the real stagers/consumers; batch: request lists over an alphabet of batchable sizes "
        "{0,1,2,3,5} and non-batchable kinds (object, complex tensor, prepare-func) in every order (thorough: all lists of "
        "length <=4) x every slab threshold 1..sum+1, slabs staged in permuted completion orders, then stored, read back "
        "(plain/tiled, permuted request order) through batch_read_requests; batch_read on synthetic ranged requests incl. "
        "overlapping, nested, empty, duplicate ranges and short objects; random mixed pipelines over dtypes and layouts. "
        "A case is non-trivial when its plan has at least two pieces / one slab member / one ranged read.")
TRUSTED = [
    "Coq 8.16.1 kernel and its vm_compute VM (no native_compute)",
    "hand-written models coq/model/Chunk.v and coq/model/Batch.v tied to the code by differential runs (this harness)",
    "torch.chunk is external: model torch_chunk is validated against real torch for every d<=40, n<=50 on every run; "
    "torch narrow/view/copy_ and the buffer-protocol (de)serializer are runtime (C17 covers them)",
    "harness/props/C16.py generators, canonicalisation (paths -> integers, slab uuids -> position) and lib/tocoq.py",
]
ASSUMPTIONS = [
    "all thresholds >= 1 (0/None select the knob defaults; negative values are outside the property)",
    "math.ceil(a / b) and math.floor(a / b) are exact integer ceiling/floor division (operands below 2^53)",
    "write-request paths are pairwise distinct and never equal to a slab location 'batched/<uuid4>' (C05 covers aliasing)",
    "ranged read requests of one location have pairwise distinct byte ranges unless the range is empty: "
    "batch_read_requests keys sub-consumers by range, so a second request with the same non-empty (path, range) silently "
    "replaces the first (C16_batched_read_duplicate_refuted); every API-level producer (prepare_read plain/chunked/tiled/"
    "sharded) is checked on every run never to emit such a pair",
    "a stager produces exactly nelement*element_size bytes (BatchedBufferStager asserts it)",
    "dims are non-negative list positions; GPU slabs are not exercised (no CUDA device)",
    "subdivide_shard on a shard with a zero extent raises ZeroDivisionError (modelled as None, excluded by guard)",
]

IMP_CHUNK = "From TS Require Import model.Chunk.\n"
IMP_BATCH = "From TS Require Import model.Batch.\n"

ESIZE_DTYPE = {1: "uint8", 2: "int16", 4: "float32", 8: "float64"}
OTHER_DTYPES = ["bfloat16", "float16", "int64", "int32", "int8", "bool"]


# --------------------------------------------------------------------------- helpers
def _loop():
    global _LOOP
    try:
        return _LOOP
    except NameError:
        _LOOP = asyncio.new_event_loop()
        return _LOOP


def run(coro):
    return _loop().run_until_complete(coro)


def prod(xs):
    p = 1
    for x in xs:
        p *= x
    return p


def mk_tensor(shape, dtype_name, layout="contig", seed=0):
    """A tensor of the given logical shape with distinct deterministic values."""
    import torch
    dtype = getattr(torch, dtype_name)
    n = prod(shape)

    def fill(m):
        base = torch.arange(m, dtype=torch.int64) * 3 + seed + 1
        if dtype == torch.bool:
            return (base % 2 == 0)
        if dtype in (torch.uint8, torch.int8):
            return (base % 127).to(dtype)
        if dtype.is_complex:
            return torch.complex(base.to(torch.float32), (base + 1).to(torch.float32)).to(dtype)
        return (base % 30011).to(dtype)

    shape = list(shape)
    if layout == "contig" or len(shape) == 0:
        return fill(n).reshape(shape)
    if layout == "transposed":
        rev = shape[::-1]
        perm = list(range(len(shape)))[::-1]
        t = torch.empty(rev, dtype=dtype).permute(perm)
        t.copy_(fill(n).reshape(shape))
        return t
    if layout == "strided":
        big = torch.zeros(shape[:-1] + [shape[-1] * 2 + 1], dtype=dtype)
        t = big[..., 1::2][..., :shape[-1]] if shape[-1] > 0 else big[..., :0]
        t.copy_(fill(n).reshape(shape))
        return t
    raise ValueError(layout)


def tbytes(t) -> bytes:
    import torch
    c = t.detach().clone(memory_format=torch.contiguous_format).reshape(-1)
    if c.dtype == torch.bool:
        c = c.to(torch.uint8)
    return bytes(c.view(torch.uint8).numpy().tobytes())


def same_tensor(a, b) -> bool:
    return list(a.shape) == list(b.shape) and a.dtype == b.dtype and tbytes(a) == tbytes(b)


def rle(obs_list):
    out = []
    for o in obs_list:
        if out and out[-1][1] == o:
            out[-1][0] += 1
        else:
            out.append([1, o])
    return out


def run_first_idx(runs):
    """threshold (1-based) at which each run starts"""
    idx, t = [], 1
    for k, _ in runs:
        idx.append(t)
        t += k
    return idx


def exact_cover(whole_offs, whole_sizes, pieces) -> str | None:
    """pieces (offsets, sizes) cover every index of the box exactly once and do not stick out."""
    import torch
    nd = len(whole_sizes)
    cnt = torch.zeros(list(whole_sizes), dtype=torch.int32)
    for offs, sizes in pieces:
        if len(offs) != nd or len(sizes) != nd:
            return "rank differs"
        v = cnt
        for d in range(nd):
            rel = offs[d] - whole_offs[d]
            if sizes[d] < 0 or rel < 0 or rel + sizes[d] > whole_sizes[d]:
                return f"piece {offs}/{sizes} outside the box"
            v = v.narrow(d, rel, sizes[d])
        v += 1
    if cnt.numel() and not bool((cnt == 1).all()):
        return "some index covered %s times" % sorted(set(cnt.reshape(-1).tolist()))
    return None


def along_dim(whole_offs, whole_sizes, dim, pieces) -> str | None:
    """contiguous along dim from the base offset, other dims untouched, non-empty unless the extent is 0."""
    cur = whole_offs[dim]
    for offs, sizes in pieces:
        for d in range(len(whole_sizes)):
            if d != dim and (offs[d] != whole_offs[d] or sizes[d] != whole_sizes[d]):
                return f"dim {d} touched"
        if offs[dim] != cur:
            return f"not contiguous at {offs}"
        if whole_sizes[dim] > 0 and sizes[dim] <= 0:
            return "empty piece"
        cur += sizes[dim]
    if cur != whole_offs[dim] + whole_sizes[dim]:
        return "lengths do not sum to the extent"
    return None


class MemStore(dict):
    pass


async def stage_all(write_reqs):
    out = {}
    for wr in write_reqs:
        out[wr.path] = bytes(await wr.buffer_stager.stage_buffer())
    return out


async def exec_reads(store, read_reqs):
    for rr in read_reqs:
        obj = store[rr.path]
        buf = obj if rr.byte_range is None else obj[rr.byte_range[0]:rr.byte_range[1]]
        await rr.buffer_consumer.consume_buffer(buf)


def dup_nonempty_range(read_reqs):
    seen = set()
    for rr in read_reqs:
        if rr.byte_range is None:
            continue
        k = (rr.path, tuple(rr.byte_range))
        if k in seen and rr.byte_range[0] != rr.byte_range[1]:
            return k
        seen.add(k)
    return None


def canon_bytes(b: bytes) -> bytes:
    """large opaque payloads (torch.save pickles) are only ever read whole: keep the Coq literals small"""
    import hashlib
    if len(b) <= 64:
        return bytes(b)
    return hashlib.sha1(b).digest()[:6] + bytes([len(b) % 251])


SEARCHING = False


def model_cases(tag, imports, fn, cases, shard=400):
    """model vs implementation inside coqc; skipped while the driver only searches for a failing input"""
    if SEARCHING:
        return [], []
    return coqrun.run_cases(tag, imports, fn, cases, shard=shard)


def fail(res, sig, what, replay):
    res.failures.append(Failure(sig, what, replay))


def mism(res, where, bad, errs, cases, meta):
    for e in errs:
        res.mismatches.append(Mismatch(where, "coqc error", None, e))
    for i in bad:
        res.mismatches.append(Mismatch(where, meta[i], cases[i][1][:1500], None))


# --------------------------------------------------------------------------- A. torch.chunk
def check_torch_chunk(ctx: Ctx, res: Result):
    import torch
    cases, meta = [], []
    for d in range(41):
        t = torch.zeros(d, dtype=torch.uint8)
        for n in range(0, 51):
            try:
                lens = [int(c.shape[0]) for c in torch.chunk(t, n, 0)]
                obs = [lens]
            except RuntimeError:
                obs = None
            cases.append((f"({d}, {n})", val(obs)))
            meta.append({"d": d, "n": n, "torch": obs})
            res.count("torch_chunk.pieces", "error" if obs is None else min(len(obs[0]), 9))
    # other dims are copied, and the lengths depend only on the extent of the chunked dim
    for d, n, dim in itertools.product((0, 1, 3, 7), (1, 2, 3, 5, 9), (0, 1, 2)):
        shape = [2, 3, 2]
        shape[dim] = d
        one = [int(c.shape[0]) for c in torch.chunk(torch.zeros(d), n, 0)]
        got = [list(c.shape) for c in torch.chunk(torch.zeros(shape), n, dim)]
        exp = [shape[:dim] + [l] + shape[dim + 1:] for l in one]
        if got != exp:
            res.mismatches.append(Mismatch("chunk:torch.chunk~torch_chunk", {"shape": shape, "n": n, "dim": dim}, got, exp))
    bad, errs = model_cases("C16_tc", IMP_CHUNK, "obs_torch_chunk", cases)
    mism(res, "chunk:torch.chunk~torch_chunk", bad, errs, cases, meta)
    res.traces_validated += len(cases)


# --------------------------------------------------------------------------- shapes
def quick_shapes(ctx: Ctx):
    base = [[], [0], [1], [2], [4], [0, 3], [3, 0], [1, 1], [2, 3], [4, 4], [1, 4], [2, 3, 4], [4, 4, 4], [1, 4, 1],
            [3, 1, 2], [2, 0, 2], [2, 1, 3, 2], [1, 1, 1, 1], [2, 0, 2, 2], [3, 2, 2, 3]]
    rng = ctx.rng
    for _ in range(ctx.n(6, 40)):
        base.append([rng.choice([0, 1, 1, 2, 3, 4, 5]) for _ in range(rng.randint(0, 4))])
    return base


def all_shapes(maxdim=3, maxext=4):
    out = []
    for nd in range(maxdim + 1):
        out += [list(s) for s in itertools.product(range(maxext + 1), repeat=nd)]
    return out


def shape_plan(ctx: Ctx):
    """[(shape, esize, layout)]"""
    rng = ctx.rng
    out = []
    if ctx.thorough:
        for sh in all_shapes():
            for es in (1, 2, 4, 8):
                out.append((sh, es, rng.choice(["contig", "contig", "transposed", "strided"])))
        for sh in quick_shapes(ctx):
            if len(sh) == 4:
                out.append((sh, rng.choice([1, 2, 4, 8]), rng.choice(["contig", "transposed", "strided"])))
    else:
        for sh in quick_shapes(ctx):
            for es in rng.sample([1, 2, 4, 8], 2):
                out.append((sh, es, rng.choice(["contig", "contig", "transposed", "strided"])))
    return out


# --------------------------------------------------------------------------- B. chunk_tensor
def chunk_roundtrip(t, chunks):
    """write the chunks with the real preparer, read them back with the real preparer"""
    from torchsnapshot.io_preparers.chunked_tensor import ChunkedTensorIOPreparer
    entry, wrs = ChunkedTensorIOPreparer.prepare_write("p", t, chunks)
    store = run(stage_all(wrs))
    rrs, fut = ChunkedTensorIOPreparer.prepare_read(entry)
    dup = dup_nonempty_range(rrs)
    run(exec_reads(store, rrs))
    return same_tensor(fut.obj, t), dup, len(store) == len(wrs)


def run_chunk(shape, dim, esize, layout, thresholds=None, content=True):
    """-> (observations per threshold, failures [(sig, what, T)])"""
    from torchsnapshot.io_preparers.chunked_tensor import ChunkedTensorIOPreparer
    t = mk_tensor(shape, ESIZE_DTYPE[esize], layout)
    sh1 = shape if shape else [1]
    total = prod(sh1) * esize
    obs, fails = [], []
    prev = object()
    for T in (thresholds or range(1, total + 2)):
        try:
            chunks = ChunkedTensorIOPreparer.chunk_tensor(t, chunking_dim=dim, chunk_sz_bytes=T)
        except RuntimeError as e:
            if total != 0:
                fails.append(("C16:chunk_tensor:unexpected-exception", f"{type(e).__name__}: {e}", T))
            obs.append(None)
            continue
        pieces = [(list(c.offsets), list(c.sizes)) for c in chunks]
        o = [[[a, b] for a, b in pieces]]
        obs.append(o)
        err = exact_cover([0] * len(sh1), sh1, pieces) or along_dim([0] * len(sh1), sh1, dim, pieces)
        if err is None and sum(esize * prod(s) for _, s in pieces) != total:
            err = "byte lengths do not add up"
        if err:
            fails.append(("C16:chunk_tensor:not-a-partition", err + f" pieces={pieces}", T))
        elif content and o != prev:
            try:
                ok, dup, distinct = chunk_roundtrip(t, chunks)
            except Exception as e:
                fails.append(("C16:chunk:roundtrip-unexpected-exception", f"{type(e).__name__}: {str(e)[:200]}", T))
                prev = o
                continue
            if not ok:
                fails.append(("C16:chunk:roundtrip-content-differs", f"pieces={pieces}", T))
            if dup:
                fails.append(("C16:producer-emits-duplicate-nonempty-range", f"chunked prepare_read {dup}", T))
        prev = o
    return obs, fails


def check_chunk(ctx: Ctx, res: Result):
    cases, meta = [], []
    for shape, esize, layout in shape_plan(ctx):
        sh1 = shape if shape else [1]
        dims = range(len(sh1)) if (ctx.thorough or len(sh1) <= 2) else ctx.rng.sample(range(len(sh1)), 2)
        for dim in dims:
            obs, fails = run_chunk(shape, dim, esize, layout)
            params = {"kind": "chunk", "shape": shape, "dim": dim, "esize": esize, "layout": layout}
            for sig, what, T in fails:
                fail(res, sig, f"chunk_tensor shape={shape} dim={dim} esize={esize} layout={layout} chunk_sz_bytes={T}: {what}",
                     dict(params, T=T))
            runs = rle(obs)
            res.case(dict(params, n_thresholds=len(obs)), nontrivial=any(o and len(o[0]) >= 2 for o in obs))
            res.count("chunk.ndim", len(shape))
            res.count("chunk.distinct_plans", min(len(runs), 12))
            for o in obs:
                res.count("chunk.pieces", "error" if o is None else min(len(o[0]), 6))
            cases.append((f"({term(shape)}, {term(Nat(dim))}, {esize}, {len(obs)})", val(runs)))
            meta.append(params)
    bad, errs = model_cases("C16_ch", IMP_CHUNK, "obs_chunk_sweep", cases, shard=300)
    mism(res, "chunk:chunk_tensor~model", bad, errs, cases, meta)
    res.traces_validated += len(cases)


# --------------------------------------------------------------------------- C. subdivide_shard
def run_subdivide(offs, sizes, dim, esize, layout, thresholds=None):
    import torch
    from torchsnapshot.io_preparers.sharded_tensor import ShardedTensorIOPreparer
    gshape = [o + s + 1 for o, s in zip(offs, sizes)]
    G = mk_tensor(gshape, ESIZE_DTYPE[esize], layout)
    shard = G
    for d in range(len(sizes)):
        shard = shard.narrow(d, offs[d], sizes[d])
    total = prod(sizes) * esize
    obs, fails = [], []
    for T in (thresholds or range(1, total + 2)):
        try:
            sub = ShardedTensorIOPreparer.subdivide_shard(shard, list(offs), list(sizes), dim, T)
        except ZeroDivisionError:
            if total != 0:
                fails.append(("C16:subdivide_shard:unexpected-exception", "ZeroDivisionError on a non-empty shard", T))
            obs.append(None)
            continue
        except Exception as e:
            fails.append(("C16:subdivide_shard:unexpected-exception", f"{type(e).__name__}: {str(e)[:200]}", T))
            obs.append(None)
            continue
        pieces = [(list(o), list(s)) for _, o, s in sub]
        obs.append([[[a, b] for a, b in pieces]])
        err = exact_cover(offs, sizes, pieces) or along_dim(offs, sizes, dim, pieces)
        if err is None and sum(esize * prod(s) for _, s in pieces) != total:
            err = "byte lengths do not add up"
        if err:
            fails.append(("C16:subdivide_shard:not-a-partition", err + f" pieces={pieces}", T))
            continue
        for view, o, s in sub:
            ref = G
            for d in range(len(s)):
                ref = ref.narrow(d, o[d], s[d])
            if list(view.shape) != list(s) or not same_tensor(view, ref):
                fails.append(("C16:subdivide_shard:view-differs", f"piece {o}/{s} does not hold the elements of its box", T))
                break
    return obs, fails


def check_subdivide(ctx: Ctx, res: Result):
    rng = ctx.rng
    cases, meta = [], []
    for shape, esize, layout in shape_plan(ctx):
        if not shape:
            continue                      # sizes[dim] needs at least one dim
        dims = range(len(shape)) if (ctx.thorough or len(shape) <= 2) else rng.sample(range(len(shape)), 2)
        for dim in dims:
            offs = [rng.choice([0, 0, 1, 3, 7]) for _ in shape]
            obs, fails = run_subdivide(offs, shape, dim, esize, layout)
            params = {"kind": "subdivide", "offs": offs, "sizes": shape, "dim": dim, "esize": esize, "layout": layout}
            for sig, what, T in fails:
                fail(res, sig, f"subdivide_shard offsets={offs} sizes={shape} dim={dim} esize={esize} max_shard_sz_bytes={T}: {what}",
                     dict(params, T=T))
            runs = rle(obs)
            res.case(dict(params, n_thresholds=len(obs)), nontrivial=any(o and len(o[0]) >= 2 for o in obs))
            res.count("subdivide.ndim", len(shape))
            for o in obs:
                res.count("subdivide.pieces", "error" if o is None else min(len(o[0]), 6))
            cases.append((f"({term(offs)}, {term(shape)}, {term(Nat(dim))}, {esize}, {len(obs)})", val(runs)))
            meta.append(params)
    bad, errs = model_cases("C16_sd", IMP_CHUNK, "obs_subdivide_sweep", cases, shard=300)
    mism(res, "shard:subdivide_shard~model", bad, errs, cases, meta)
    res.traces_validated += len(cases)


# --------------------------------------------------------------------------- D. prepare_read_tiled
def run_tile(shape, esize, out_layout, base, thresholds=None):
    """-> (flat, observations per limit, failures)"""
    import torch
    from torchsnapshot.io_preparers.tensor import TensorIOPreparer
    from torchsnapshot.manifest import TensorEntry
    dname = ESIZE_DTYPE[esize]
    src = mk_tensor(shape, dname, "contig", seed=5)
    size = prod(shape) * esize
    pad = b"\xee" * (base or 0)
    obj = pad + tbytes(src) + b"\xdd\xdd"
    obs, fails = [], []
    flat = True
    prev = object()
    for L in (thresholds or range(1, size + 2)):
        out = mk_tensor(shape, dname, out_layout, seed=77)
        try:
            out.view(-1)
        except RuntimeError:
            flat = False
        entry = TensorEntry(location="loc", serializer="buffer_protocol", dtype="torch." + dname, shape=list(shape),
                            replicated=False, byte_range=None if base is None else [base, base + size])
        try:
            rrs, fut = TensorIOPreparer.prepare_read(entry, out, buffer_size_limit_bytes=L)
        except Exception as e:
            fails.append(("C16:tile:unexpected-exception", f"{type(e).__name__}: {str(e)[:200]}", L))
            obs.append(None)
            continue
        o = [[[rr.byte_range[0], rr.byte_range[1], list(rr.buffer_consumer.entry.shape)] for rr in rrs]]
        obs.append(o)
        b0 = base or 0
        err = None
        cur = b0
        for lo, hi, shp in o[0]:
            if lo != cur:
                err = f"range ({lo},{hi}) does not start where the previous one ended ({cur})"
                break
            if hi - lo != esize * prod(shp):
                err = f"range ({lo},{hi}) is not esize*numel of recorded shape {shp}"
                break
            if size > 0 and hi <= lo:
                err = "empty tile"
                break
            cur = hi
        if err is None and (cur != b0 + size or not o[0]):
            err = f"tiles end at {cur}, tensor ends at {b0 + size}"
        if err:
            fails.append(("C16:tile:ranges-not-an-exact-partition", err, L))
            continue
        dup = dup_nonempty_range(rrs)
        if dup:
            fails.append(("C16:producer-emits-duplicate-nonempty-range", f"prepare_read_tiled {dup}", L))
        if o != prev:
            try:
                run(exec_reads({"loc": obj}, rrs))
            except Exception as e:
                fails.append(("C16:tile:consumer-raised", f"{type(e).__name__}: {str(e)[:200]}", L))
                prev = o
                continue
            if fut.obj is not out or not same_tensor(out, src):
                fails.append(("C16:tile:content-differs", "tensor read through the tiles differs from the stored tensor", L))
        prev = o
    return flat, obs, fails


def check_tile(ctx: Ctx, res: Result):
    rng = ctx.rng
    cases, meta = [], []
    for shape, esize, _ in shape_plan(ctx):
        layouts = ["contig"]
        if len(shape) >= 2:
            layouts.append(rng.choice(["transposed", "strided"]))
        for out_layout in layouts:
            base = rng.choice([None, 0, 7])
            flat, obs, fails = run_tile(shape, esize, out_layout, base)
            params = {"kind": "tile", "shape": shape, "esize": esize, "out_layout": out_layout, "base": base}
            for sig, what, L in fails:
                fail(res, sig, f"prepare_read_tiled shape={shape} esize={esize} out_layout={out_layout} byte_range base={base} "
                               f"buffer_size_limit_bytes={L}: {what}", dict(params, T=L))
            runs = rle(obs)
            res.case(dict(params, n_limits=len(obs)), nontrivial=any(o and len(o[0]) >= 2 for o in obs))
            res.count("tile.flat", flat)
            res.count("tile.base", base)
            for o in obs:
                res.count("tile.tiles", "error" if o is None else min(len(o[0]), 6))
            cases.append((f"({term(shape)}, {term(flat)}, {esize}, {base or 0}, {len(obs)})", val(runs)))
            meta.append(dict(params, flat=flat))
    bad, errs = model_cases("C16_ti", IMP_CHUNK, "obs_tile_sweep", cases, shard=300)
    mism(res, "tile:prepare_read_tiled~model", bad, errs, cases, meta)
    res.traces_validated += len(cases)


# --------------------------------------------------------------------------- E. batch_write / stage / read back
# request symbols: ("b", numel, esize) batchable tensor; ("c", numel) complex64 tensor (torch_save);
# ("o", k) python object; ("p", numel) uint8 tensor with a _tensor_prepare_func
def _prep(t, tracing):
    return t


def make_requests(symbols, delays=None):
    """fresh entries + write requests from the REAL prepare_write functions.
    -> (entries, write_reqs, info[i] = {batchable, size, tensor|obj, stager})"""
    from torchsnapshot.io_preparers.object import ObjectIOPreparer
    from torchsnapshot.io_preparers.tensor import TensorBufferStager, TensorIOPreparer

    order_log = []

    class DelayedStager(TensorBufferStager):
        """same stager, completes after `delay` extra loop iterations (completion order = harness input)"""
        delay = 0
        pid = -1

        async def stage_buffer(self, executor=None):
            for _ in range(self.delay):
                await asyncio.sleep(0)
            buf = await super().stage_buffer(executor)
            order_log.append(self.pid)
            return buf

    entries, wrs, info = [], [], []
    for i, s in enumerate(symbols):
        path = f"0/k{i}"
        if s[0] == "o":
            obj = {"x": list(range(s[1]))}
            e, w = ObjectIOPreparer.prepare_write(path, obj)
            info.append({"batchable": False, "size": 0, "obj": obj})
        else:
            if s[0] == "b":
                t = mk_tensor([s[1]], ESIZE_DTYPE.get(s[2], s[2]), "contig", seed=i * 11)
                e, w = TensorIOPreparer.prepare_write(path, t)
                batchable = True
            elif s[0] == "c":
                t = mk_tensor([s[1]], "complex64", "contig", seed=i * 11)
                e, w = TensorIOPreparer.prepare_write(path, t)
                batchable = False
            else:
                t = mk_tensor([s[1]], "uint8", "contig", seed=i * 11)
                e, w = TensorIOPreparer.prepare_write(path, t, _tensor_prepare_func=_prep)
                batchable = False
            st = w[0].buffer_stager
            d = DelayedStager(tensor=st.tensor, entry=st.entry, is_async_snapshot=False,
                              _tensor_prepare_func=st._tensor_prepare_func)
            d.delay = 0 if delays is None else delays[i]
            d.pid = i
            w[0].buffer_stager = d
            info.append({"batchable": batchable, "size": t.nelement() * t.element_size(), "tensor": t})
        entries.append(e)
        wrs += w
    return entries, wrs, info, order_log


def observe_batch_write(symbols, order, T, delays=None):
    """run the real batch_write_requests on fresh requests taken in `order`; canonicalised observation,
    oracle failures and everything needed to go on (store, entries)."""
    from torchsnapshot.batcher import BatchedBufferStager, batch_write_requests
    entries, wrs, info, order_log = make_requests(symbols, delays)
    pid_of_path = {w.path: i for i, w in enumerate(wrs)}
    pid_of_stager = {id(w.buffer_stager): i for i, w in enumerate(wrs)}
    in_reqs = [wrs[i] for i in order]
    fails = []
    _, out = batch_write_requests(entries, in_reqs, slab_size_threshold_bytes=T)
    slab_reqs = [w for w in out if isinstance(w.buffer_stager, BatchedBufferStager)]
    pass_reqs = [w for w in out if not isinstance(w.buffer_stager, BatchedBufferStager)]
    slab_idx = {w.path: k for k, w in enumerate(slab_reqs)}
    obs_slabs = []
    for k, w in enumerate(slab_reqs):
        d = w.buffer_stager.byte_range_to_buffer_stager
        obs_slabs.append([k, [[w.buffer_stager.slab_sz_bytes,
                               [[lo, hi, pid_of_stager.get(id(st), -1)] for (lo, hi), st in d.items()]]]])
    obs_pass = [[pid_of_path.get(w.path, -1), info[pid_of_path[w.path]]["batchable"] if w.path in pid_of_path else False,
                 info[pid_of_path[w.path]]["size"] if w.path in pid_of_path else -1] for w in pass_reqs]
    obs_reloc = []
    for i in order:
        e = entries[i]
        br = getattr(e, "byte_range", None)
        if e.location != wrs[i].path or br is not None:
            obs_reloc.append([i, slab_idx.get(e.location, -1)] + (list(br) if br is not None else [-1, -1]))
    obs = [obs_slabs, obs_pass, obs_reloc]

    # ---- oracle: what the property demands of the write plan (nothing about WHICH requests are batched or how
    # full a slab may get: that is the model correspondence's business)
    passed = [p[0] for p in obs_pass]
    it = iter(order)
    if not all(any(i == j for j in it) for i in passed) or \
            any(w is not wrs[pid_of_path[w.path]] for w in pass_reqs if w.path in pid_of_path) or -1 in passed:
        fails.append(("C16:batch_write:pass-through-changed", f"pass-through {passed} is not a sub-sequence of the input {order} "
                      "made of the same request objects"))
    for i in order:
        n = passed.count(i) + sum(1 for r in obs_reloc if r[0] == i)
        if n != 1:
            fails.append(("C16:batch_write:request-lost-or-duplicated", f"request {i} appears {n} times in the output plan"))
    per_slab = {}
    for i, k, lo, hi in obs_reloc:
        per_slab.setdefault(k, []).append((lo, hi, i))
        if k < 0 or hi - lo != info[i]["size"]:
            fails.append(("C16:slab:range-size-differs-from-tensor", f"request {i}: slab {k} range ({lo},{hi}) size {info[i]['size']}"))
    for k, w in enumerate(slab_reqs):
        cur = 0
        for lo, hi, i in per_slab.get(k, []):
            if lo != cur or hi < lo:
                fails.append(("C16:slab:ranges-not-consecutive-disjoint", f"slab {k}: {per_slab.get(k)}"))
                break
            cur = hi
        else:
            if cur != w.buffer_stager.slab_sz_bytes:
                fails.append(("C16:slab:ranges-do-not-end-at-slab-size", f"slab {k}: end {cur} size {w.buffer_stager.slab_sz_bytes}"))
    return {"obs": obs, "fails": fails, "entries": entries, "wrs": wrs, "info": info, "out": out,
            "slab_reqs": slab_reqs, "slab_idx": slab_idx, "pid_of_stager": pid_of_stager, "order_log": order_log,
            "per_slab": per_slab}


def stage_and_check(bw, fails, stage_cases, stage_meta, tag):
    """stage every output request with the real stagers; oracle: slab[lo:hi] == what the member's stager produced"""
    store = {}
    for w in bw["out"]:
        bw["order_log"].clear()
        try:
            buf = bytes(run(w.buffer_stager.stage_buffer()))
        except AssertionError as e:
            fails.append(("C16:slab:stage-assertion", str(e)[:200]))
            continue
        store[w.path] = buf
        if w.path in bw["slab_idx"]:
            k = bw["slab_idx"][w.path]
            d = w.buffer_stager.byte_range_to_buffer_stager
            by_pid = {bw["pid_of_stager"][id(st)]: (lo, hi) for (lo, hi), st in d.items()}
            done = list(bw["order_log"])
            members = []
            for pid in done:
                lo, hi = by_pid[pid]
                members.append((lo, hi, tbytes(bw["info"][pid]["tensor"])))
            for lo, hi, pid in bw["per_slab"].get(k, []):
                exp = tbytes(bw["info"][pid]["tensor"])
                if buf[lo:hi] != exp:
                    fails.append(("C16:slab:staged-bytes-differ", f"slab {k} [{lo}:{hi}] != bytes staged for request {pid}"))
            m_term = "[" + "; ".join(f"({lo}, {hi}, {term(b)})" for lo, hi, b in members) + "]"
            stage_cases.append((f"({w.buffer_stager.slab_sz_bytes}, {m_term})", val([list(buf)])))
            stage_meta.append(dict(tag, slab=k, completion=done))
    return store


def read_back(bw, store, limits, rorder, read_cases, read_meta, tag, fails):
    """prepare_read every entry with the real preparers, merge with the real batch_read_requests, execute against
    the store; oracle: every object/tensor comes back bit-identical; correspondence of plan and deliveries."""
    import torch
    from torchsnapshot.batcher import BatchedBufferConsumer, batch_read_requests
    from torchsnapshot.io_preparer import prepare_read
    from torchsnapshot.io_types import BufferConsumer

    class Rec(BufferConsumer):
        def __init__(self, inner, cid):
            self.inner, self.cid, self.got = inner, cid, []

        async def consume_buffer(self, buf, executor=None):
            self.got.append(bytes(buf))
            await self.inner.consume_buffer(buf, executor)

        def get_consuming_cost_bytes(self):
            return self.inner.get_consuming_cost_bytes()

    rrs_all, futs, recs = [], {}, []
    for i, e in enumerate(bw["entries"]):
        rrs, fut = prepare_read(e, None, buffer_size_limit_bytes=limits[i])
        futs[i] = fut
        for rr in rrs:
            rec = Rec(rr.buffer_consumer, len(recs))
            rr.buffer_consumer = rec
            recs.append(rec)
            rrs_all.append((i, rr))
    dup = dup_nonempty_range([rr for _, rr in rrs_all])
    if dup:
        fails.append(("C16:producer-emits-duplicate-nonempty-range", f"prepare_read {dup}"))
    perm = [rrs_all[j] for j in rorder(len(rrs_all))]
    in_rrs = [rr for _, rr in perm]
    paths = {}

    def pid(path):
        if path in bw["slab_idx"]:
            return -1 - bw["slab_idx"][path]
        if path not in paths:
            paths[path] = int(path.split("k")[-1]) if path.startswith("0/k") else 900 + len(paths)
        return paths[path]

    req_obs = [(pid(rr.path), None if rr.byte_range is None else tuple(rr.byte_range), rr.buffer_consumer.cid) for rr in in_rrs]
    merged = batch_read_requests(list(in_rrs))
    plan = []
    for rr in merged:
        if isinstance(rr.buffer_consumer, BatchedBufferConsumer):
            plan.append([1, pid(rr.path), rr.byte_range[0], rr.byte_range[1], rr.buffer_consumer.buf_sz_bytes,
                         [[a, b, c.cid] for (a, b), c in rr.buffer_consumer.byte_range_to_buffer_consumer.items()]])
        else:
            plan.append([0, pid(rr.path), rr.buffer_consumer.cid])
    try:
        run(exec_reads(store, merged))
    except Exception as e:  # a consumer rejecting its buffer: content cannot be right
        fails.append(("C16:roundtrip:consumer-raised", f"{type(e).__name__}: {str(e)[:200]}"))
    for i, inf in enumerate(bw["info"]):
        got = futs[i].obj
        if "tensor" in inf:
            if not isinstance(got, torch.Tensor) or not same_tensor(got, inf["tensor"]):
                fails.append(("C16:roundtrip:content-differs", f"entry {i} (size {inf['size']}) read back differs from what was staged"))
        elif got != inf["obj"]:
            fails.append(("C16:roundtrip:content-differs", f"object entry {i} read back differs"))
    for (i, rr), rec in zip(rrs_all, recs):
        if rr.byte_range is not None and rr.byte_range[0] != rr.byte_range[1]:
            exp = store.get(rr.path, b"")[rr.byte_range[0]:rr.byte_range[1]]
            if rec.got != [exp]:
                fails.append(("C16:batch_read:sub-consumer-wrong-bytes", f"consumer of entry {i} range {rr.byte_range} got {len(rec.got)} buffers"))
    deliveries = [[list(canon_bytes(b)) for b in rr.buffer_consumer.got] for rr in in_rrs]
    used = sorted({r[0] for r in req_obs})
    rev = {v: k for k, v in paths.items()}
    rev.update({-1 - k: p for p, k in bw["slab_idx"].items()})
    st_term = "[" + "; ".join(f"({term(p)}, {term(canon_bytes(store[rev[p]]))})" for p in used if rev[p] in store) + "]"
    rq_term = "[" + "; ".join(
        f"({term(p)}, {'None' if r is None else '(Some (' + term(r[0]) + ', ' + term(r[1]) + '))'}, {c})" for p, r, c in req_obs) + "]"
    read_cases.append((f"({rq_term}, {st_term})", val([plan, deliveries])))
    read_meta.append(dict(tag, reqs=[list(map(lambda x: list(x) if isinstance(x, tuple) else x, r)) for r in req_obs]))
    return len([r for r in req_obs if r[1] is not None])


def sym_key(s):
    return list(s)


def run_batch_scenario(symbols, order, delays, limits, rseed, thresholds=None, collect=None):
    """sweep every slab threshold; -> (obs per T, failures [(sig, what, T)])"""
    import random
    tmax = sum(sym_size(s) for s in symbols) + 1
    obs, fails = [], []
    prev = object()
    tag0 = {"kind": "batch", "symbols": [sym_key(s) for s in symbols], "order": list(order), "delays": list(delays),
            "limits": list(limits), "rseed": rseed}
    stage_cases, stage_meta, read_cases, read_meta = collect if collect else ([], [], [], [])
    n_ranged = 0
    for T in (thresholds or range(1, tmax + 1)):
        try:
            bw = observe_batch_write(symbols, order, T, delays)
        except Exception as e:      # the real planner raised on a valid request list
            fails.append(("C16:batch_write:unexpected-exception", f"{type(e).__name__}: {str(e)[:200]}", T))
            obs.append([[], [], [[-9, -9, -9, -9]]])
            continue
        f = list(bw["fails"])
        obs.append(bw["obs"])
        if bw["obs"] != prev and not f:
            tag = dict(tag0, T=T)
            store = stage_and_check(bw, f, stage_cases, stage_meta, tag)
            r = random.Random(rseed)

            def rorder(n):
                idx = list(range(n))
                r.shuffle(idx)
                return idx
            if not f:
                try:
                    n_ranged += read_back(bw, store, limits, rorder, read_cases, read_meta, tag, f)
                except Exception as e:
                    f.append(("C16:roundtrip:unexpected-exception", f"{type(e).__name__}: {str(e)[:200]}"))
        prev = bw["obs"]
        fails += [(sig, what, T) for sig, what in f]
    return obs, fails, n_ranged


B_ALPHA = [("b", 0, 1), ("b", 1, 1), ("b", 2, 1), ("b", 3, 1), ("b", 5, 1)]
N_ALPHA = [("c", 2), ("o", 3), ("p", 2)]


def batch_scenarios(ctx: Ctx):
    rng = ctx.rng
    out = []
    if ctx.thorough:
        alpha = B_ALPHA + N_ALPHA[:2]
        for k in range(1, 5):
            for syms in itertools.product(alpha, repeat=k):
                out.append(list(syms))
        for _ in range(150):
            out.append([rng.choice(B_ALPHA + N_ALPHA + [("b", 2, 2), ("b", 1, 4), ("b", 1, 8), ("b", 3, "bfloat16")])
                        for _ in range(rng.randint(5, 7))])
    else:
        out += [[s] for s in B_ALPHA + N_ALPHA]
        for k in (2, 3):
            pool = list(itertools.product(B_ALPHA + N_ALPHA[:2], repeat=k))
            out += [list(s) for s in rng.sample(pool, 40 if k == 2 else 50)]
        for _ in range(ctx.n(40, 40)):
            out.append([rng.choice(B_ALPHA + N_ALPHA + [("b", 2, 2), ("b", 1, 4), ("b", 1, 8), ("b", 3, "bfloat16")])
                        for _ in range(rng.randint(4, 7))])
    return out


def fix_symbols(symbols):
    """("b", n, "bfloat16") -> numeric size bookkeeping uses esize 2"""
    return [tuple(s) for s in symbols]


def sym_size(s):
    if s[0] != "b":
        return 0
    es = s[2] if isinstance(s[2], int) else 2
    return s[1] * es


def check_batch(ctx: Ctx, res: Result):
    rng = ctx.rng
    cases, meta = [], []
    collect = ([], [], [], [])
    for symbols in batch_scenarios(ctx):
        n = len(symbols)
        # the product over the alphabet already enumerates every order; random permutation for the random lists
        order = list(range(n))
        if n >= 5:
            rng.shuffle(order)
        delays = [rng.choice([0, 0, 1, 2, 3]) for _ in range(n)]
        limits = [rng.choice([None, None, 1, 2, 3, 100]) for _ in range(n)]
        rseed = rng.randrange(1 << 30)
        tmax = sum(sym_size(s) for s in symbols) + 1
        obs, fails, n_ranged = run_batch_scenario(symbols, order, delays, limits, rseed,
                                                  thresholds=range(1, tmax + 1), collect=collect)
        params = {"kind": "batch", "symbols": [list(s) for s in symbols], "order": order, "delays": delays,
                  "limits": limits, "rseed": rseed}
        for sig, what, T in fails:
            fail(res, sig, f"requests={symbols} order={order} slab_size_threshold_bytes={T}: {what}", dict(params, T=T))
        runs = rle(obs)
        res.case(dict(params, n_thresholds=len(obs)), nontrivial=any(o[0] for o in obs))
        res.count("batch.n_requests", n)
        for o in obs:
            res.count("batch.slabs", min(len(o[0]), 5))
            res.count("batch.max_members", min(max([len(s[1][0][1]) for s in o[0] if s[1]] + [0]), 5))
        res.count("batch.ranged_reads", min(n_ranged, 9))
        reqs_in_order = [(i, sym_batchable(symbols[i]), sym_decl_size(symbols[i])) for i in order]
        rq = "[" + "; ".join(f"({i}, {term(b)}, {sz})" for i, b, sz in reqs_in_order) + "]"
        cases.append((f"({rq}, {tmax})", val(runs)))
        meta.append(params)
    bad, errs = model_cases("C16_bw", IMP_BATCH, "obs_batch_write_sweep", cases, shard=300)
    mism(res, "batch:batch_write_requests~model", bad, errs, cases, meta)
    sc, sm, rc, rm = collect
    bad, errs = model_cases("C16_st", IMP_BATCH, "obs_stage", sc)
    mism(res, "batch:BatchedBufferStager~stage_slab", bad, errs, sc, sm)
    bad, errs = model_cases("C16_rb", IMP_BATCH, "obs_batch_read", rc, shard=300)
    mism(res, "batch:batch_read_requests~model", bad, errs, rc, rm)
    res.traces_validated += len(cases) + len(sc) + len(rc)
    res.count("batch.stage_cases", len(sc))
    res.count("batch.readback_cases", len(rc))


def sym_decl_size(s):
    """nelement * element_size as the harness reports it for pass-through requests"""
    return {"b": sym_size(s), "c": s[1] * 8, "p": s[1], "o": 0}[s[0]]


def sym_batchable(s):
    return s[0] == "b"


# --------------------------------------------------------------------------- F. batch_read on synthetic requests
R_ALPHA = [None, (0, 0), (0, 2), (1, 3), (2, 2), (2, 5), (0, 5), (3, 4)]


def run_read_synth(reqs, objs):
    """reqs: [(path int, range|None)], objs: {path: bytes}.  Recording consumers.
    -> (plan obs, deliveries, failures)"""
    from torchsnapshot.batcher import BatchedBufferConsumer, batch_read_requests
    from torchsnapshot.io_types import BufferConsumer, ReadReq

    class Rec(BufferConsumer):
        def __init__(self, cid):
            self.cid, self.got = cid, []

        async def consume_buffer(self, buf, executor=None):
            self.got.append(bytes(buf))

        def get_consuming_cost_bytes(self):
            return 0

    recs = [Rec(c) for c in range(len(reqs))]
    rrs = [ReadReq(path=f"f{p}", buffer_consumer=recs[c], byte_range=r) for c, (p, r) in enumerate(reqs)]
    merged = batch_read_requests(list(rrs))
    plan = []
    for rr in merged:
        p = int(rr.path[1:])
        if isinstance(rr.buffer_consumer, BatchedBufferConsumer):
            plan.append([1, p, rr.byte_range[0], rr.byte_range[1], rr.buffer_consumer.buf_sz_bytes,
                         [[a, b, c.cid] for (a, b), c in rr.buffer_consumer.byte_range_to_buffer_consumer.items()]])
        else:
            plan.append([0, p, rr.buffer_consumer.cid])
    run(exec_reads({f"f{p}": o for p, o in objs.items()}, merged))
    deliveries = [[list(b) for b in rec.got] for rec in recs]
    fails = []
    keys = [(p, r) for p, r in reqs]
    for c, (p, r) in enumerate(reqs):
        obj = objs[p]
        exp = obj if r is None else obj[r[0]:r[1]]
        dup_nonempty = r is not None and r[0] != r[1] and keys.count((p, r)) > 1
        if dup_nonempty:
            continue      # outside the property's quantifier (forced hypothesis; see ASSUMPTIONS)
        if r is not None and r[0] == r[1]:
            ok = recs[c].got in ([], [b""])       # an empty range carries no content either way
        else:
            ok = recs[c].got == [exp]
        if not ok:
            fails.append(("C16:batch_read:sub-consumer-wrong-bytes",
                          f"consumer {c} of f{p} range {r} received {[list(b) for b in recs[c].got]} expected {list(exp)}"))
    for rr in merged:
        if isinstance(rr.buffer_consumer, BatchedBufferConsumer):
            if rr.buffer_consumer.buf_sz_bytes != rr.byte_range[1] - rr.byte_range[0]:
                fails.append(("C16:batch_read:buffer-size-differs-from-merged-range", f"{rr.path} {rr.byte_range}"))
    return plan, deliveries, fails


def check_read_synth(ctx: Ctx, res: Result):
    rng = ctx.rng
    scen = []
    full = bytes(range(10, 17))
    if ctx.thorough:
        alpha = [(p, r) for p in (0, 1) for r in R_ALPHA[:7]]
        for k in (1, 2, 3):
            for reqs in itertools.product(alpha, repeat=k):
                scen.append(list(reqs))
    else:
        alpha = [(p, r) for p in (0, 1) for r in R_ALPHA]
        scen += [[a] for a in alpha]
        pool2 = list(itertools.product(alpha, repeat=2))
        scen += [list(s) for s in rng.sample(pool2, 80)]
    for _ in range(ctx.n(120, 1500)):
        k = rng.randint(3, 7)
        reqs = []
        for _ in range(k):
            if rng.random() < 0.15:
                reqs.append((rng.randint(0, 2), None))
            else:
                a = rng.randint(0, 6)
                reqs.append((rng.randint(0, 2), (a, rng.choice([a, a + 1, a + 3, 7]))))
        scen.append(reqs)
    # the witness of C16_batched_read_duplicate_refuted, replayed on the real code on every run (documented
    # forced hypothesis, not a Failure: no API-level producer emits such a pair)
    witness = [(0, (2, 5)), (0, (2, 5)), (0, (0, 2))]
    _, wd, _ = run_read_synth(witness, {0: full})
    res.notes.append("C16_batched_read_duplicate_refuted witness on the real batch_read_requests: consumer 0 received "
                     f"{wd[0]} (dropped: {wd[0] == []}), consumer 1 received {wd[1]}")
    scen.insert(0, witness)
    cases, meta = [], []
    for reqs in scen:
        paths = sorted({p for p, _ in reqs})
        for cut in (7, rng.choice([0, 1, 2, 3, 4, 5, 6])):
            objs = {p: (full if p != paths[0] else full[:cut]) for p in paths}
            plan, deliveries, fails = run_read_synth(reqs, objs)
            params = {"kind": "read", "reqs": [[p, list(r) if r else None] for p, r in reqs],
                      "objs": {str(p): list(o) for p, o in objs.items()}}
            for sig, what in fails:
                fail(res, sig, f"batch_read_requests reqs={reqs} object lengths={ {p: len(o) for p, o in objs.items()} }: {what}", params)
            res.case(params, nontrivial=any(r is not None for _, r in reqs))
            res.count("read.n_reqs", len(reqs))
            res.count("read.short_object", cut < 7)
            res.count("read.duplicate_nonempty_range",
                      any(r and r[0] != r[1] and [q for q in reqs].count((p, r)) > 1 for p, r in reqs))
            rq = "[" + "; ".join(
                f"({p}, {'None' if r is None else '(Some (' + str(r[0]) + ', ' + str(r[1]) + '))'}, {c})"
                for c, (p, r) in enumerate(reqs)) + "]"
            st = "[" + "; ".join(f"({p}, {term(o)})" for p, o in objs.items()) + "]"
            cases.append((f"({rq}, {st})", val([plan, deliveries])))
            meta.append(params)
    bad, errs = model_cases("C16_rs", IMP_BATCH, "obs_batch_read", cases, shard=400)
    mism(res, "batch:batch_read_requests~model", bad, errs, cases, meta)
    res.traces_validated += len(cases)


# --------------------------------------------------------------------------- G. mixed pipelines (dtypes, layouts, chunked + sharded entries)
def run_pipeline(spec):
    """spec: {"tensors": [(shape, dtype, layout, chunk_T|None, dim)], "shards": [(gshape, esize, split, maxsz)],
              "slab_T", "limit", "wseed", "rseed"}   -> failures [(sig, what)]"""
    import random
    import torch
    from torchsnapshot.batcher import batch_read_requests, batch_write_requests
    from torchsnapshot.io_preparer import prepare_read
    from torchsnapshot.io_preparers.chunked_tensor import ChunkedTensorIOPreparer
    from torchsnapshot.io_preparers.sharded_tensor import ShardedTensorIOPreparer
    from torchsnapshot.io_preparers.tensor import TensorIOPreparer
    from torchsnapshot.manifest import Shard, ShardedTensorEntry

    fails = []
    entries, wrs, originals = [], [], []
    for i, (shape, dname, layout, cT, dim) in enumerate(spec["tensors"]):
        t = mk_tensor(shape, dname, layout, seed=i)
        path = f"0/t{i}"
        if cT is not None and t.nelement() > 0:
            chunks = ChunkedTensorIOPreparer.chunk_tensor(t, chunking_dim=dim, chunk_sz_bytes=cT)
            e, w = ChunkedTensorIOPreparer.prepare_write(path, t, chunks)
        else:
            e, w = TensorIOPreparer.prepare_write(path, t)
        entries.append(e)
        wrs += w
        originals.append(t)
    for j, (gshape, esize, split, maxsz) in enumerate(spec["shards"]):
        G = mk_tensor(gshape, ESIZE_DTYPE[esize], "contig", seed=50 + j)
        shards = []
        # local shards: split dim 0 at `split` (like a ChunkShardingSpec over two ranks, both held here)
        bounds = [(0, split), (split, gshape[0])] if 0 < split < gshape[0] else [(0, gshape[0])]
        for a, b in bounds:
            offs = [a] + [0] * (len(gshape) - 1)
            sizes = [b - a] + list(gshape[1:])
            local = G.narrow(0, a, b - a)
            for view, so, ss in ShardedTensorIOPreparer.subdivide_shard(local, offs, sizes, 0, maxsz):
                suffix = "_".join(str(x) for x in so)
                e, w = TensorIOPreparer.prepare_write(f"sharded/s{j}_{suffix}", view)
                wrs += w
                shards.append(Shard(offsets=so, sizes=ss, tensor=e))
        entries.append(ShardedTensorEntry(shards=shards))
        originals.append(G)
    r = random.Random(spec["wseed"])
    r.shuffle(wrs)
    _, out = batch_write_requests(entries, wrs, slab_size_threshold_bytes=spec["slab_T"])
    store = run(stage_all(out))
    rrs_all, futs = [], []
    for e in entries:
        rrs, fut = prepare_read(e, None, buffer_size_limit_bytes=spec["limit"])
        dup = dup_nonempty_range(rrs)
        if dup:
            fails.append(("C16:producer-emits-duplicate-nonempty-range", f"prepare_read({type(e).__name__}) {dup}"))
        rrs_all += rrs
        futs.append(fut)
    dup = dup_nonempty_range(rrs_all)
    if dup:
        fails.append(("C16:producer-emits-duplicate-nonempty-range", f"restore-level read list {dup}"))
    r = random.Random(spec["rseed"])
    r.shuffle(rrs_all)
    merged = batch_read_requests(rrs_all)
    run(exec_reads(store, merged))
    for i, (fut, orig) in enumerate(zip(futs, originals)):
        if not isinstance(fut.obj, torch.Tensor) or not same_tensor(fut.obj, orig):
            fails.append(("C16:roundtrip:content-differs", f"entry {i} ({type(entries[i]).__name__}) read back differs"))
    return fails, len(out), len(merged)


def check_pipeline(ctx: Ctx, res: Result):
    rng = ctx.rng
    for _ in range(ctx.n(60, 600)):
        tensors = []
        for _ in range(rng.randint(1, 4)):
            shape = [rng.choice([0, 1, 2, 3, 4]) for _ in range(rng.randint(0, 4))]
            dname = rng.choice(list(ESIZE_DTYPE.values()) + OTHER_DTYPES + ["complex64"])
            layout = rng.choice(["contig", "transposed", "strided"])
            cT = rng.choice([None, 1, 2, 3, 5, 8, 16, 33, 1000])
            dim = rng.randrange(max(len(shape), 1))
            tensors.append((shape, dname, layout, cT, dim))
        shards = []
        if rng.random() < 0.5:
            gshape = [rng.choice([1, 2, 3, 5])] + [rng.choice([1, 2, 3]) for _ in range(rng.randint(0, 2))]
            shards.append((gshape, rng.choice([1, 2, 4, 8]), rng.randint(0, gshape[0]), rng.choice([1, 4, 9, 16, 1000])))
        spec = {"tensors": tensors, "shards": shards, "slab_T": rng.choice([1, 2, 5, 9, 17, 40, 100000]),
                "limit": rng.choice([None, 1, 3, 8, 64]), "wseed": rng.randrange(1 << 30), "rseed": rng.randrange(1 << 30)}
        try:
            fails, n_w, n_r = run_pipeline(spec)
        except Exception as e:
            fails, n_w, n_r = [("C16:pipeline:unexpected-exception", f"{type(e).__name__}: {str(e)[:300]}")], 0, 0
        params = {"kind": "pipeline", "spec": spec}
        for sig, what in fails:
            fail(res, sig, f"pipeline {spec}: {what}", params)
        res.case(params, nontrivial=n_w > 0)
        res.count("pipeline.slab_T", spec["slab_T"])
        res.count("pipeline.limit", spec["limit"])
        res.count("pipeline.dtypes", ",".join(sorted({t[1] for t in tensors}))[:40])


# --------------------------------------------------------------------------- driver
CHECKS = [
    ("chunk:torch.chunk", lambda c, r: check_torch_chunk(c, r)),
    ("chunk:chunk_tensor", lambda c, r: check_chunk(c, r)),
    ("shard:", lambda c, r: check_subdivide(c, r)),
    ("tile:", lambda c, r: check_tile(c, r)),
    ("batch:", lambda c, r: (check_batch(c, r), check_read_synth(c, r))),
]


def _run(ctx: Ctx, selected) -> Result:
    res = Result(rule=RULE)
    try:
        for prefix, fn in CHECKS:
            if selected is None or any(n.startswith(prefix) for n in selected):
                fn(ctx, res)
        check_pipeline(ctx, res)
    finally:
        try:
            _loop().close()
        finally:
            globals().pop("_LOOP", None)
    res.exhaustive = ctx.thorough
    return res


def correspond(ctx: Ctx) -> Result:
    return _run(ctx, None)


def search(ctx: Ctx, broken) -> Result:
    """an obligation broke and the first pass found no failing input: re-run the direct oracles (no Coq) over the
    thorough scope, restricted to the planners whose correspondence broke (everything when a theorem broke)"""
    global SEARCHING
    names = [o.name for o in broken]
    corr = [n.split("correspondence:", 1)[1] for n in names if n.startswith("correspondence:")]
    selected = corr if corr and len(corr) == len(names) else None
    SEARCHING = True
    wide = Ctx(ctx.prop, "thorough", ctx.seed, widen=max(ctx.widen, 2))   # no coqc here: the exhaustive scope is cheap
    try:
        return _run(wide, selected)
    finally:
        SEARCHING = False
        wide.cleanup()


def replay(ctx: Ctx, data):
    k = data["kind"]
    fails = []
    if k == "chunk":
        _, f = run_chunk(data["shape"], data["dim"], data["esize"], data["layout"], thresholds=[data["T"]])
        fails = [(s, w) for s, w, _ in f]
    elif k == "subdivide":
        _, f = run_subdivide(data["offs"], data["sizes"], data["dim"], data["esize"], data["layout"], thresholds=[data["T"]])
        fails = [(s, w) for s, w, _ in f]
    elif k == "tile":
        _, _, f = run_tile(data["shape"], data["esize"], data["out_layout"], data["base"], thresholds=[data["T"]])
        fails = [(s, w) for s, w, _ in f]
    elif k == "batch":
        syms = [tuple(s) for s in data["symbols"]]
        _, f, _ = run_batch_scenario(syms, data["order"], data["delays"], data["limits"], data["rseed"], thresholds=[data["T"]])
        fails = [(s, w) for s, w, _ in f]
    elif k == "read":
        reqs = [(p, tuple(r) if r else None) for p, r in data["reqs"]]
        _, _, fails = run_read_synth(reqs, {int(p): bytes(o) for p, o in data["objs"].items()})
    elif k == "pipeline":
        spec = dict(data["spec"])
        spec["tensors"] = [tuple(t) for t in spec["tensors"]]
        spec["shards"] = [tuple(s) for s in spec["shards"]]
        try:
            fails, _, _ = run_pipeline(spec)
        except Exception as e:
            fails = [("C16:pipeline:unexpected-exception", f"{type(e).__name__}: {e}")]
    if fails:
        return Failure(fails[0][0], fails[0][1], data)
    return None


MANIFEST = {
    "level_text": ("Machine-checked proof (Coq 8.16.1) over executable models of chunk_tensor, subdivide_shard, "
                   "prepare_read_tiled, batch_write_requests + BatchedBufferStager and batch_read_requests + "
                   "BatchedBufferConsumer: for every shape, element size, dim and every threshold >= 1 the pieces are an exact "
                   "partition (every index in exactly one piece, byte lengths add up), tile and slab byte ranges are consecutive "
                   "and disjoint, staging in any completion order puts every member's bytes at its range, a merged read hands "
                   "every sub-consumer exactly object[lo:hi], and write-plan + staging + store + read-plan returns to every "
                   "entry the bytes its stager produced. The models are tied to the code on every run by differential "
                   "execution of the real planning functions, stagers and consumers (bounded-exhaustive threshold sweeps) "
                   "against the models inside coqc (vm_compute); torch.chunk is validated exhaustively for d<=40, n<=50."),
    "level_note": ("Trusted: Coq kernel + VM; hand-written models (coq/model/Chunk.v, Batch.v) and the differential harness; "
                   "torch.chunk/narrow/view/copy_ are external (validated / C17). Forced hypotheses: thresholds >= 1; no zero "
                   "extent for chunk/subdivide (the code raises); distinct write paths; ranged reads of one location have distinct "
                   "ranges unless empty (otherwise batch_read_requests drops a consumer - witness theorem included). GPU slabs and "
                   "negative dims are not modelled. Theorems are closed under the global context (no axioms)."),
    "technique": "Coq proof (induction over piece lists / fold invariants / permutation-invariant staging) with vm_compute "
                 "correspondence against the real planners, stagers and consumers",
    "design_ref": "DESIGN.md section 5, C16",
}
