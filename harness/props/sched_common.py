"""Gated execution of the REAL scheduler pipelines (C10, C11).

Fake stagers / consumers / storage await a gate; a controller coroutine in the same event loop opens one gate
at a time and waits for quiescence, so one schedule = one deterministic execution of the real
execute_write_reqs + PendingIOWork.complete / execute_read_reqs.  From the begin/end log the harness derives
(a) the property evaluated directly (budget, cap, exactly-once, no hang, failures raise) and
(b) the event list + visit orders that make the Coq model replay the same execution."""
from __future__ import annotations

import asyncio
import io
import os

from lib.tocoq import Ctor, term, val


class Ctl:
    def __init__(self):
        self.gates = {}          # (kind, id) -> future
        self.log = []            # ("begin"|"end"|"fail", kind, id)
        self.in_step = False     # a gate was opened and its consequences are still being collected

    async def gate(self, kind, i):
        fut = asyncio.get_running_loop().create_future()
        self.gates[(kind, i)] = fut
        self.log.append(("begin", kind, i))
        r = await fut
        if r == "fail":
            self.log.append(("fail", kind, i))
            raise RuntimeError(f"injected failure in {kind} {i}")
        self.log.append(("end", kind, i))

    def open_gates(self):
        return [k for k, f in self.gates.items() if not f.done()]

    async def quiesce(self, task=None):
        stable, n = 0, len(self.log)
        while stable < 6:
            await asyncio.sleep(0)
            if len(self.log) == n:
                stable += 1
            else:
                stable, n = 0, len(self.log)


def _imports():
    from torchsnapshot.io_types import BufferConsumer, BufferStager, ReadReq, StoragePlugin, WriteReq
    return BufferConsumer, BufferStager, ReadReq, StoragePlugin, WriteReq


def make_fakes(ctl, reqs):
    BufferConsumer, BufferStager, ReadReq, StoragePlugin, WriteReq = _imports()

    class St(BufferStager):
        def __init__(self, i, cost, bsz):
            self.i, self.cost, self.bsz = i, cost, bsz

        async def stage_buffer(self, executor=None):
            await ctl.gate("stage", self.i)
            return b"x" * self.bsz

        def get_staging_cost_bytes(self):
            return self.cost

    class Co(BufferConsumer):
        def __init__(self, i, cost):
            self.i, self.cost = i, cost

        async def consume_buffer(self, buf, executor=None):
            await ctl.gate("consume", self.i)

        def get_consuming_cost_bytes(self):
            return self.cost

    class Sto(StoragePlugin):
        async def write(self, write_io):
            await ctl.gate("write", int(write_io.path))

        async def read(self, read_io):
            i = int(read_io.path)
            await ctl.gate("read", i)
            read_io.buf = io.BytesIO(b"y" * reqs[i][1])

        async def delete(self, path):
            pass

        async def delete_dir(self, path):
            pass

        async def close(self):
            pass

    wrs = [WriteReq(path=str(i), buffer_stager=St(i, c, b)) for i, (c, b) in enumerate(reqs)]
    rrs = [ReadReq(path=str(i), buffer_consumer=Co(i, c)) for i, (c, b) in enumerate(reqs)]
    return wrs, rrs, Sto()


class Run:
    """Result of one gated execution."""
    def __init__(self):
        self.steps = []        # per opened gate: dict(kind, id, fail, begun=[(kind,id)...])
        self.initial = []      # ops begun before the first gate was opened
        self.outcome = None    # "ok" | exception class name | "hang"
        self.handoff_at = None
        self.handoff_rem = None
        self.final_rem = None
        self.log = []


def _drive(ctl, task, picks, fail_at, run, max_steps=400):
    async def go():
        await ctl.quiesce()
        mark = len(ctl.log)
        run.initial = [(k, i) for (t, k, i) in ctl.log if t == "begin"]
        step = 0
        while not task.done() and step < max_steps:
            open_ = sorted(ctl.open_gates())
            if not open_:
                await ctl.quiesce()
                if not task.done() and not ctl.open_gates():
                    run.outcome = "hang"
                    task.cancel()
                    try:
                        await task
                    except BaseException:
                        pass
                    return
                continue
            pick = picks[step % len(picks)] if picks else 0
            k = open_[pick % len(open_)]
            fail = (fail_at is not None and step == fail_at)
            ctl.in_step = True
            ctl.gates[k].set_result("fail" if fail else "ok")
            await ctl.quiesce()
            ctl.in_step = False
            begun = [(kk, ii) for (t, kk, ii) in ctl.log[mark:] if t == "begin"]
            mark = len(ctl.log)
            run.steps.append({"kind": k[0], "id": k[1], "fail": fail, "begun": begun})
            step += 1
        if not task.done():
            run.outcome = "hang"
            task.cancel()
        try:
            await task
            if run.outcome is None:
                run.outcome = "ok"
        except asyncio.CancelledError:
            run.outcome = run.outcome or "hang"
        except Exception as e:  # noqa
            run.outcome = type(e).__name__
        # release abandoned gates so nothing is left pending on the loop
        for f in ctl.gates.values():
            if not f.done():
                f.cancel()
        await asyncio.sleep(0)
    return go()


def run_write(reqs, B, K, picks, fail_at=None) -> Run:
    import logging
    logging.disable(logging.CRITICAL)
    from torchsnapshot.scheduler import execute_write_reqs
    os.environ["TORCHSNAPSHOT_MAX_PER_RANK_IO_CONCURRENCY_OVERRIDE"] = str(K)
    ctl = Ctl()
    run = Run()
    wrs, _, sto = make_fakes(ctl, reqs)

    async def main():
        async def body():
            p = await execute_write_reqs(wrs, sto, B, 0)
            run.handoff_at = len(run.steps) + (1 if ctl.in_step else 0)
            run.handoff_rem = p.memory_budget_bytes
            await p.complete()
            run.final_rem = p.memory_budget_bytes
        task = asyncio.ensure_future(body())
        await _drive(ctl, task, picks, fail_at, run)

    loop = asyncio.new_event_loop()
    try:
        loop.run_until_complete(main())
    finally:
        loop.run_until_complete(loop.shutdown_asyncgens())
        loop.close()
        os.environ.pop("TORCHSNAPSHOT_MAX_PER_RANK_IO_CONCURRENCY_OVERRIDE", None)
    run.log = list(ctl.log)
    return run


def run_read(reqs, B, K, picks, fail_at=None) -> Run:
    import logging
    logging.disable(logging.CRITICAL)
    from torchsnapshot.scheduler import execute_read_reqs
    os.environ["TORCHSNAPSHOT_MAX_PER_RANK_IO_CONCURRENCY_OVERRIDE"] = str(K)
    ctl = Ctl()
    run = Run()
    _, rrs, sto = make_fakes(ctl, reqs)

    async def main():
        task = asyncio.ensure_future(execute_read_reqs(rrs, sto, B, 0))
        await _drive(ctl, task, picks, fail_at, run)

    loop = asyncio.new_event_loop()
    try:
        loop.run_until_complete(main())
    finally:
        loop.run_until_complete(loop.shutdown_asyncgens())
        loop.close()
        os.environ.pop("TORCHSNAPSHOT_MAX_PER_RANK_IO_CONCURRENCY_OVERRIDE", None)
    run.log = list(ctl.log)
    return run


# --------------------------------------------------------------------------- interpreting a write run
class WView:
    """Stage sets of the real pipeline as seen through the log, in the model's insertion orders."""
    def __init__(self, n):
        self.rfs = list(range(n)); self.stg = []; self.rfi = []; self.io = []; self.dn = []
        self.lstage = []; self.lwrite = []; self.raised = False

    def begin(self, kind, i):
        if kind == "stage":
            if i in self.rfs:
                self.rfs.remove(i)
            self.stg.append(i); self.lstage.append(i)
        elif kind == "write":
            if i in self.rfi:
                self.rfi.remove(i)
            self.io.append(i); self.lwrite.append(i)

    def end(self, kind, i):
        if kind == "stage":
            self.stg.remove(i); self.rfi.append(i)
        elif kind == "write":
            self.io.remove(i); self.dn.append(i)

    def snapshot(self):
        return [list(self.rfs), list(self.stg), list(self.rfi), list(self.io), 1 if self.raised else 0,
                list(self.lstage), list(self.lwrite)]


def write_trace(reqs, run: Run):
    """-> (v0, model events as Gallina terms, expected per-step observations, per-step accounting for the oracle)"""
    n = len(reqs)
    v = WView(n)
    for k, i in run.initial:
        v.begin(k, i)
    v0 = [i for k, i in run.initial if k == "stage"] + list(v.rfs)
    obs = [v.snapshot()]
    acct = [accounting_w(reqs, v)]
    events = []
    for st in run.steps:
        kind, i = st["kind"], st["id"]
        if st["fail"]:
            events.append(Ctor("StageFail" if kind == "stage" else "IoFail", i))
            v.raised = True
            obs.append(v.snapshot())
            acct.append(accounting_w(reqs, v))
            break
        v.end(kind, i)
        begun_w = [j for k, j in st["begun"] if k == "write"]
        begun_s = [j for k, j in st["begun"] if k == "stage"]
        vio = begun_w + [j for j in v.rfi if j not in begun_w]
        vst = begun_s + [j for j in v.rfs if j not in begun_s]
        for k, j in st["begun"]:
            v.begin(k, j)
        events.append(Ctor("StageDone" if kind == "stage" else "IoDone", i, vio, vst))
        obs.append(v.snapshot())
        acct.append(accounting_w(reqs, v))
    return v0, events, obs, acct


def accounting_w(reqs, v: WView):
    accounted = sum(reqs[i][0] for i in v.stg) + sum(reqs[i][1] for i in v.rfi) + sum(reqs[i][1] for i in v.io)
    return {"accounted": accounted, "inflight": len(v.stg) + len(v.rfi) + len(v.io), "io": len(v.io)}


# --------------------------------------------------------------------------- interpreting a read run
class RView:
    def __init__(self, n):
        self.pend = list(range(n)); self.rio = []; self.cons = []; self.dn = []
        self.lread = []; self.lcons = []; self.raised = False

    def begin(self, kind, i):
        if kind == "read":
            if i in self.pend:
                self.pend.remove(i)
            self.rio.append(i); self.lread.append(i)
        elif kind == "consume":
            self.cons.append(i); self.lcons.append(i)

    def end(self, kind, i):
        if kind == "read":
            self.rio.remove(i)
        elif kind == "consume":
            self.cons.remove(i); self.dn.append(i)

    def snapshot(self):
        return [list(self.pend), list(self.rio), list(self.cons), 1 if self.raised else 0, list(self.lread), list(self.lcons)]


def read_trace(reqs, run: Run):
    n = len(reqs)
    v = RView(n)
    first = [i for k, i in run.initial if k == "read"]
    events = [Ctor("RDispatch", first + [j for j in v.pend if j not in first])]
    for k, i in run.initial:
        v.begin(k, i)
    obs = [v.snapshot()]
    acct = [accounting_r(reqs, v)]
    for st in run.steps:
        kind, i = st["kind"], st["id"]
        if st["fail"]:
            events.append(Ctor("RIoFail" if kind == "read" else "RConsFail", i))
            v.raised = True
            obs.append(v.snapshot()); acct.append(accounting_r(reqs, v))
            break
        v.end(kind, i)
        events.append(Ctor("RIoDone" if kind == "read" else "RConsDone", i))
        # the consume task of a finished read begins immediately (same handler)
        begun_c = [j for k, j in st["begun"] if k == "consume"]
        for j in begun_c:
            v.begin("consume", j)
        obs.append(v.snapshot()); acct.append(accounting_r(reqs, v))
        begun_r = [j for k, j in st["begun"] if k == "read"]
        events.append(Ctor("RDispatch", begun_r + [j for j in v.pend if j not in begun_r]))
        for j in begun_r:
            v.begin("read", j)
        obs.append(v.snapshot()); acct.append(accounting_r(reqs, v))
    return events, obs, acct


def accounting_r(reqs, v: RView):
    held = sum(reqs[i][0] for i in v.rio) + sum(reqs[i][1] for i in v.cons)
    return {"accounted": held, "inflight": len(v.rio) + len(v.cons), "io": len(v.rio)}


# --------------------------------------------------------------------------- Gallina input terms
def wcase_term(reqs, K, B, v0, events, ridx) -> str:
    return (f"({term([tuple(r) for r in reqs])}, ({term(K)}, {term(B)}), {term(v0)}, {term(events)}, {term(ridx)})")


def rcase_term(reqs, K, B, events) -> str:
    return f"({term([tuple(r) for r in reqs])}, ({term(K)}, {term(B)}), {term(events)})"
