"""C14 - Snapshot metadata serialization is lossless for every manifest; every strict prefix is rejected."""
from __future__ import annotations

import base64
import json
import struct

from lib import coqrun
from lib.core import Ctx, Failure, Mismatch, Result
from lib.tocoq import Ctor, Raw, Some, term, val

PROP = "C14"
PROPS_FILE = "props/C14.v"
GEN: list[str] = ["gen_manifest"]
CORRESPONDENCES = [
    "codec:str(int)/base64/get_value~model",
    "escape:json.dumps(str)~model",
    "print:SnapshotMetadata.to_yaml~generated",
    "read:SnapshotMetadata.from_yaml~generated",
    "prefix:from_yaml-on-every-strict-prefix~generated",
    "parse:json.loads~model",
    "primitive:from_object/get_value/byte_range_tuple~generated",
]
W_CODEC, W_ESC, W_PRINT, W_READ, W_PREFIX, W_PARSE, W_PRIM = CORRESPONDENCES
RULE = ("manifests generated over all nine entry kinds (list, dict, OrderedDict with int/str/bool keys, the five primitive "
        "kinds, Tensor with/without byte_range, ShardedTensor, ChunkedTensor, DTensor with nested mesh, object); strings drawn "
        "from the enumerated code-point classes (0x00-0x9F, 0xD7FF-0xE000, 0x2028/9, 0xFEFF, 0xFFFE/F, 0x10000, 0x10FFFF, "
        "random) as primitive values, dict keys and path components; int keys up to +-10^40; bytes 0..255 of every padding "
        "length; float bit-pattern classes (NaN payloads, +-0, subnormals, inf); every strict prefix of sampled documents; "
        "a malformed stream (deleted / duplicated / inserted brackets, quotes, escapes, truncation) and a fixed list of "
        "ill-typed documents the untyped reader accepts or rejects for dynamic reasons (wrong field types, shards given as "
        "dict / str / number, extra and missing keys, readable_value passed as a key, non-str type tags); "
        "PrimitiveEntry.from_object on ints, strs, bools, bytes and float bit patterns, get_value on (type, value) pairs "
        "including unsupported type names and malformed values, TensorEntry.byte_range_tuple on None and lists of length "
        "0..3. A case is non-trivial "
        "when the manifest has at least one entry or the text is a non-empty document; distinct by content hash.")
TRUSTED = [
    "Coq 8.16.1 kernel and its vm_compute VM (no native_compute)",
    "translator/gen_manifest.py (Python ast -> Gallina data, fail closed, regenerated from torchsnapshot/manifest.py on every run: "
    "every dataclass with its base, fields in source order, __init__ parameters/defaults/assignments and the `type` tag passed to "
    "super().__init__, every from_yaml_obj body statement by statement, the if/elif dispatch chain and loader order of "
    "SnapshotMetadata.from_yaml, the keyword arguments of the json.dumps call in to_yaml, the PrimitiveType enum, the expression "
    "forms of PrimitiveEntry.get_value/_serialize/from_object, TensorEntry.byte_range_tuple) and the interpreter that gives this "
    "data its meaning, coq/model/PyManifest.v (constructor call with parameter binding, dataclasses.asdict, from_yaml_obj "
    "statements, json.dumps options, and the typed view of entry objects through class / keyword / attribute names); both are "
    "also exercised on every run by differential runs of the generated terms against the real classes (this harness)",
    "hand-written models of CPython behaviour coq/model/Codec.v (str(int)/int(str), base64, struct 'd' as 8 opaque bytes) and "
    "Json.v (json.dumps string escaping and indent=2 layout, json.loads scanner), tied to CPython by differential runs (this "
    "harness): CPython's json encoder/decoder (C scanner), base64/binascii, struct and dataclasses are runtime, modelled not "
    "verified; coq/model/ManifestCodec.v is now only the specification the generated terms are proved equal to "
    "(proofs/ManifestInst.v)",
    "the legacy YAML fallback of SnapshotMetadata.from_yaml (libyaml CSafeLoader) is an uninterpreted Section variable "
    "`yaml_oracle`; the round-trip theorems never reach it; prefix rejection assumes it rejects every strict prefix of a "
    "printed document (hypothesis yaml_rejects) - tested here on every sampled prefix",
    "harness/props/C14.py generators, canonicalisation and lib/tocoq.py literal printer",
]
ASSUMPTIONS = [
    "manifest equality is equality up to the `readable` field of PrimitiveEntry, which the reader deliberately drops "
    "(display only); get_value() must be bit-identical",
    "strings are sequences of code points 0..0x10FFFF (surrogates included) with no high surrogate immediately followed by "
    "a low surrogate (json.loads joins such a pair - recorded as a known finding, replayed on every run); manifest paths "
    "and the keys of one JSON object are distinct",
    "integers below CPython's int_max_str_digits (4300 decimal digits): beyond it str(int)/json.dumps raise ValueError on "
    "write (loud, not silent); generated ints stay far below",
    "a float is its 8 bytes: struct.pack('d')/unpack are modelled as the identity on the 64-bit pattern (checked on "
    "representatives of every class)",
    "yaml_rejects: the YAML fallback rejects every strict prefix of a printed metadata document",
    "JSON numbers with fraction/exponent, NaN and Infinity never occur in metadata; the model parser rejects them "
    "(cases where the real json.loads yields a float are excluded from the read correspondence and counted)",
    "the reader does not type-check fields and neither does the generated reader (dynamically typed: documents on which the "
    "real reader builds an ill-typed entry are part of the read correspondence); the theorems are stated through the typed view "
    "of model/PyManifest.v (class names, constructor keyword names, attribute names of the entry classes)",
    "the translated from_yaml_obj bodies are run on dicts: on a list / str / number every path of the translated bodies raises "
    "in Python (TypeError on x['k'], del x['k'], ** x), which the interpreter reports as one 'raises' outcome",
    "ShardedTensorEntry.get_tensor_shape is not part of the serialization and is skipped by name; any other method, decorator, "
    "field default, top-level statement or statement form that gen_manifest.py does not recognise breaks the obligation "
    "translate:gen_manifest",
]

IMPORTS = "From TS Require Import model.Codec model.Json model.ManifestCodec.\n"
USE_GEN = False
IMPORTS_GEN = "From TS Require Import model.Codec model.Json model.ManifestCodec model.PyManifest model.ManifestGenObs.\n"


def gen_available() -> bool:
    """False when translator/gen_manifest.py failed closed on this tree (gen/ManifestGen.v is then a stub that does not
    compile and any ManifestGenObs.vo lying around is stale): the hand-written model is evaluated instead, so that the
    evidence still shows where code and model differ; the broken translate obligation decides the run anyway."""
    import os
    try:
        text = open(os.path.join(coqrun.COQ, "gen", "ManifestGen.v")).read()
    except OSError:
        return False
    return "Translator_failed" not in text and os.path.exists(os.path.join(coqrun.COQ, "model", "ManifestGenObs.vo"))
REPORT_ADJACENT_PAIR = True
SIG_PAIR = "C14:json-merges-adjacent-hi-lo-surrogate-code-points"


# --------------------------------------------------------------------------- helpers
def cps(s: str) -> list[int]:
    return [ord(c) for c in s]


def from_cps(l) -> str:
    return "".join(chr(c) for c in l)


def is_hi(c: int) -> bool:
    return 0xD800 <= c <= 0xDBFF


def is_lo(c: int) -> bool:
    return 0xDC00 <= c <= 0xDFFF


def has_pair(s: str) -> bool:
    return any(is_hi(ord(a)) and is_lo(ord(b)) for a, b in zip(s, s[1:]))


def merge_pairs(s: str) -> str:
    out, i = [], 0
    while i < len(s):
        if i + 1 < len(s) and is_hi(ord(s[i])) and is_lo(ord(s[i + 1])):
            out.append(chr(0x10000 + ((ord(s[i]) - 0xD800) << 10) + (ord(s[i + 1]) - 0xDC00)))
            i += 2
        else:
            out.append(s[i])
            i += 1
    return "".join(out)


def no_pair(s: str) -> str:
    """drop a low surrogate that directly follows a high one (generators never emit the known-finding class)"""
    out = []
    for c in s:
        if out and is_hi(ord(out[-1])) and is_lo(ord(c)):
            continue
        out.append(c)
    return "".join(out)


ENUM_POINTS = (list(range(0x00, 0xA0)) + list(range(0xD7FF, 0xE001)) +
               [0x2028, 0x2029, 0xFEFF, 0xFFFE, 0xFFFF, 0x10000, 0x10FFFF])


def rand_cp(rng) -> int:
    r = rng.random()
    if r < 0.30:
        return rng.randint(0x20, 0x7E)
    if r < 0.40:
        return rng.choice([0x22, 0x5C, 0x2F, 0x0A, 0x0D, 0x09, 0x08, 0x0C, 0x00, 0x1F, 0x7F, 0x25, 0x20])
    if r < 0.48:
        return rng.randint(0x00, 0x9F)
    if r < 0.60:
        return rng.choice([0xD7FF, 0xD800, 0xD801, 0xDBFF, 0xDC00, 0xDC01, 0xDFFF, 0xE000])
    if r < 0.66:
        return rng.randint(0xD800, 0xDFFF)
    if r < 0.74:
        return rng.choice([0x2028, 0x2029, 0xFEFF, 0xFFFE, 0xFFFF, 0x85, 0xA0])
    if r < 0.84:
        return rng.choice([0x10000, 0x10001, 0x1F600, 0xFFFFF, 0x100000, 0x10FFFE, 0x10FFFF])
    if r < 0.92:
        return rng.randint(0xA0, 0xFFFF)
    return rng.randint(0x10000, 0x10FFFF)


def gen_str(rng, maxlen=6) -> str:
    n = rng.choice([0, 1, 1, 2, 3, maxlen])
    return no_pair("".join(chr(rand_cp(rng)) for _ in range(n)))


BIG_INTS = [0, 1, -1, 9, 10, -10, 255, 2**31 - 1, 2**31, -2**31, 2**63 - 1, 2**63, -2**63 - 1, 2**64, 10**19, 10**40,
            -10**40, 10**40 - 1, -(10**40) + 1, 10**39, 123456789012345678901234567890]


def gen_int(rng) -> int:
    r = rng.random()
    if r < 0.5:
        return rng.choice(BIG_INTS)
    if r < 0.8:
        return rng.randint(-1000, 1000)
    return rng.randint(-10**40, 10**40)


FLOAT_BITS = [
    0x0000000000000000, 0x8000000000000000,                          # +-0
    0x0000000000000001, 0x8000000000000001, 0x000FFFFFFFFFFFFF, 0x0008000000000000,   # subnormals
    0x0010000000000000, 0x7FEFFFFFFFFFFFFF, 0xFFEFFFFFFFFFFFFF,      # min normal, +-max
    0x7FF0000000000000, 0xFFF0000000000000,                          # +-inf
    0x7FF8000000000000, 0xFFF8000000000000, 0x7FF8000000000001, 0x7FFFFFFFFFFFFFFF, 0xFFFFFFFFFFFFFFFF,  # quiet NaNs
    0x7FF0000000000001, 0x7FF4000000000000, 0xFFF0000000000001, 0x7FF7FFFFFFFFFFFF,   # signalling NaNs
    0x3FF0000000000000, 0x3FF8000000000000, 0xBFB999999999999A, 0x400921FB54442D18,
]


def float_class(bits: int) -> str:
    e = (bits >> 52) & 0x7FF
    m = bits & ((1 << 52) - 1)
    if e == 0x7FF:
        return "inf" if m == 0 else ("qnan" if m >> 51 else "snan")
    if e == 0:
        return "zero" if m == 0 else "subnormal"
    return "normal"


def float_of_bits(bits: int) -> float:
    return struct.unpack("<d", struct.pack("<Q", bits))[0]


def bits_of_float(x: float) -> bytes:
    return struct.pack("d", x)


# --------------------------------------------------------------------------- generators (real entry classes)
def gen_key(rng):
    r = rng.random()
    if r < 0.4:
        return gen_str(rng)
    if r < 0.8:
        return gen_int(rng)
    return rng.random() < 0.5


def gen_shape(rng):
    return [rng.choice([0, 1, 2, 3, 7, 2**40]) for _ in range(rng.choice([0, 1, 2, 3]))]


def gen_tensor(rng, M):
    br = None
    if rng.random() < 0.5:
        a = rng.choice([0, 1, 4096, 2**40])
        br = [a, a + rng.choice([0, 1, 8, 2**33])]
    return M.TensorEntry(location=gen_str(rng), serializer=rng.choice(["buffer_protocol", "torch_save", gen_str(rng)]),
                         dtype=rng.choice(["torch.float32", "torch.bfloat16", gen_str(rng, 3)]), shape=gen_shape(rng),
                         replicated=rng.random() < 0.5, byte_range=br)


def gen_shard(rng, M):
    return M.Shard(offsets=gen_shape(rng), sizes=gen_shape(rng), tensor=gen_tensor(rng, M))


def gen_mesh(rng, depth=0):
    if depth >= 3 or rng.random() < 0.4:
        return rng.choice([0, 1, 2, 7, 2**40])
    return [gen_mesh(rng, depth + 1) for _ in range(rng.choice([0, 1, 2, 3]))]


def gen_prim_obj(rng):
    k = rng.choice(["int", "str", "bool", "bytes", "float"])
    if k == "int":
        return gen_int(rng)
    if k == "str":
        return gen_str(rng, 8)
    if k == "bool":
        return rng.random() < 0.5
    if k == "bytes":
        n = rng.choice([0, 1, 2, 3, 4, 5, 6, 7, 16])
        return bytes(rng.randrange(256) for _ in range(n))
    bits = rng.choice(FLOAT_BITS) if rng.random() < 0.7 else rng.getrandbits(64)
    return float_of_bits(bits)


def gen_entry(rng, M):
    k = rng.choice(["list", "dict", "odict", "prim", "prim", "prim", "tensor", "sharded", "chunked", "dtensor", "object"])
    if k == "list":
        return M.ListEntry()
    if k == "dict":
        return M.DictEntry(keys=[gen_key(rng) for _ in range(rng.choice([0, 1, 2, 4]))])
    if k == "odict":
        return M.OrderedDictEntry(keys=[gen_key(rng) for _ in range(rng.choice([0, 1, 3]))])
    if k == "prim":
        e = M.PrimitiveEntry.from_object(gen_prim_obj(rng))
        e.replicated = rng.random() < 0.5
        return e
    if k == "tensor":
        return gen_tensor(rng, M)
    if k == "sharded":
        return M.ShardedTensorEntry(shards=[gen_shard(rng, M) for _ in range(rng.choice([0, 1, 2]))])
    if k == "chunked":
        return M.ChunkedTensorEntry(dtype=rng.choice(["torch.int8", gen_str(rng, 3)]), shape=gen_shape(rng),
                                    chunks=[gen_shard(rng, M) for _ in range(rng.choice([0, 1, 2]))],
                                    replicated=rng.random() < 0.5)
    if k == "dtensor":
        return M.DTensorEntry(shards=[gen_shard(rng, M) for _ in range(rng.choice([0, 1, 2]))], mesh=gen_mesh(rng),
                              dim_map=[[rng.choice([-1, 0, 1]) for _ in range(rng.choice([0, 1, 2]))]
                                       for _ in range(rng.choice([0, 1, 2]))])
    return M.ObjectEntry(location=gen_str(rng), serializer="torch_save", obj_type=gen_str(rng), replicated=rng.random() < 0.5)


def gen_path(rng) -> str:
    return "/".join([str(rng.choice([0, 1, 13]))] + [gen_str(rng, 4) for _ in range(rng.choice([1, 1, 2, 3]))])


def gen_md(rng, M, n=None):
    n = rng.choice([0, 1, 2, 3, 5]) if n is None else n
    man = {}
    for _ in range(n):
        man[gen_path(rng)] = gen_entry(rng, M)
    return M.SnapshotMetadata(version=rng.choice(["0.0.1", "0.1.0", gen_str(rng, 4)]),
                              world_size=rng.choice([1, 2, 8, 2**40]), manifest=man)


def class_mds(M, points):
    """the enumerated code points as primitive values, dict keys and path components (no adjacent hi-lo pair:
    low surrogates are placed before high ones)"""
    lows = [c for c in points if is_lo(c)]
    rest = [c for c in points if not is_lo(c)]
    order = lows + rest
    out = []
    for i in range(0, len(order), 24):
        chunk = order[i:i + 24]
        s = no_pair("".join(chr(c) for c in chunk))
        man = {"0/v": M.PrimitiveEntry.from_object(s), "0/d": M.DictEntry(keys=[chr(c) for c in chunk])}
        for c in chunk:
            man["0/p" + chr(c)] = M.ListEntry()
        out.append(M.SnapshotMetadata(version="0.0.1", world_size=1, manifest=man))
    return out


def corpus_mds(M):
    """fixed cases that run first on every run"""
    P = M.PrimitiveEntry.from_object
    t = M.TensorEntry("0/w", "buffer_protocol", "torch.float32", [2, 3], False, [0, 24])
    sh = M.Shard([0, 0], [2, 3], t)
    mds = [
        M.SnapshotMetadata("0.0.1", 1, {}),
        M.SnapshotMetadata("", 0, {"": M.ListEntry()}),
        M.SnapshotMetadata("0.0.1", 2, {
            "0/a": M.DictEntry(keys=["x", 1, True, False, 0, -1, 10**40, -10**40, "1", "True", ""]),
            "0/a/x": P(1.5), "0/a/1": P("\U00010000\ud800 \udc00\"\\\n\r\t\b\f\x00\x1f\x7f\u2028\u2029\ufeff\ufffe\uffff\U0010ffff"),
            "0/o": M.OrderedDictEntry(keys=[]), "0/l": M.ListEntry(), "0/b": P(bytes(range(256))), "0/n": P(-10**40),
            "0/t": P(True), "0/f": P(False), "0/e": P(b""), "0/s": P(""),
        }),
        M.SnapshotMetadata("0.0.1", 4, {
            "0/t": t, "0/t2": M.TensorEntry("l", "torch_save", "torch.int64", [], True, None),
            "0/sh": M.ShardedTensorEntry([sh, sh]), "0/sh0": M.ShardedTensorEntry([]),
            "0/ch": M.ChunkedTensorEntry("torch.float32", [4, 3], [sh], True),
            "0/dt": M.DTensorEntry([sh], [[0, 1], [2, 3]], [[0], [-1]]), "0/dt1": M.DTensorEntry([], 5, []),
            "0/dt2": M.DTensorEntry([], [], [[]]), "0/dt3": M.DTensorEntry([], [[], [[7]]], [[0, 1]]),
            "0/ob": M.ObjectEntry("0/ob", "torch_save", "builtins.object", False),
        }),
        M.SnapshotMetadata("0.0.1", 1, {"0/" + "k" * 1100: M.ListEntry()}),           # key longer than 1024 chars (D5)
    ]
    for bits in FLOAT_BITS:
        mds.append(M.SnapshotMetadata("0.0.1", 1, {"0/x": P(float_of_bits(bits))}))
    for n in range(0, 8):
        mds.append(M.SnapshotMetadata("0.0.1", 1, {"0/x": P(bytes(range(250, 250 + n) if n < 6 else range(n)))}))
    return mds


def pair_witnesses(M):
    """the known-finding input class: a high surrogate code point immediately followed by a low one"""
    s = chr(0xD800) + chr(0xDC00)
    return [
        M.SnapshotMetadata("v", 1, {"0/k": M.PrimitiveEntry.from_object(s)}),
        M.SnapshotMetadata("v", 1, {"0/" + s: M.ListEntry(), "0/" + chr(0x10000): M.DictEntry(keys=[])}),
        M.SnapshotMetadata("v", 1, {"0/k": M.DictEntry(keys=["a" + chr(0xDBFF) + chr(0xDFFF) + "b"])}),
    ]


# --------------------------------------------------------------------------- plain (json-able) form for replays
def plain(x):
    import dataclasses
    if isinstance(x, str):
        return {"s": cps(x)}
    if isinstance(x, bool) or x is None:
        return x
    if isinstance(x, int):
        return {"i": str(x)}
    if isinstance(x, list):
        return [plain(e) for e in x]
    if isinstance(x, dict):
        return {"d": [[plain(k), plain(v)] for k, v in x.items()]}
    if dataclasses.is_dataclass(x):
        return {"c": type(x).__name__, "f": [[f.name, plain(getattr(x, f.name))] for f in dataclasses.fields(x)]}
    raise TypeError(type(x))


def unplain(p, M):
    if p is None or isinstance(p, bool):
        return p
    if isinstance(p, list):
        return [unplain(e, M) for e in p]
    if "s" in p:
        return from_cps(p["s"])
    if "i" in p:
        return int(p["i"])
    if "d" in p:
        return {unplain(k, M): unplain(v, M) for k, v in p["d"]}
    cls = getattr(M, p["c"])
    f = {k: unplain(v, M) for k, v in p["f"]}
    if p["c"] == "PrimitiveEntry":
        return cls(f["type"], f["serialized_value"], f["replicated"], f["readable"])
    if p["c"] == "SnapshotMetadata" or p["c"] == "Shard":
        return cls(**f)
    f.pop("type", None)
    return cls(**f)


# --------------------------------------------------------------------------- strict comparison
def strict_eq(a, b, skip_readable=True) -> bool:
    import dataclasses
    if type(a) is not type(b):
        return False
    if isinstance(a, list):
        return len(a) == len(b) and all(strict_eq(x, y) for x, y in zip(a, b))
    if isinstance(a, dict):
        return set(a.keys()) == set(b.keys()) and all(type(k) is str for k in b) and all(strict_eq(a[k], b[k]) for k in a)
    if dataclasses.is_dataclass(a):
        for f in dataclasses.fields(a):
            if skip_readable and type(a).__name__ == "PrimitiveEntry" and f.name == "readable" and a.type == "float":
                continue
            if not strict_eq(getattr(a, f.name), getattr(b, f.name)):
                return False
        return True
    if isinstance(a, float):
        return struct.pack("d", a) == struct.pack("d", b)
    return a == b


def strings_of(x, acc):
    import dataclasses
    if isinstance(x, str):
        acc.append(x)
    elif isinstance(x, list):
        for e in x:
            strings_of(e, acc)
    elif isinstance(x, dict):
        for k, v in x.items():
            strings_of(k, acc)
            strings_of(v, acc)
    elif dataclasses.is_dataclass(x):
        for f in dataclasses.fields(x):
            strings_of(getattr(x, f.name), acc)
    return acc


def map_strings(x, fn, M):
    """rebuild a metadata object with fn applied to every str (dict keys included; later duplicates overwrite)"""
    return unplain(_map_plain(plain(x), fn), M)


def _map_plain(p, fn):
    if p is None or isinstance(p, bool):
        return p
    if isinstance(p, list):
        return [_map_plain(e, fn) for e in p]
    if "s" in p:
        return {"s": cps(fn(from_cps(p["s"])))}
    if "i" in p:
        return p
    if "d" in p:
        return {"d": [[_map_plain(k, fn), _map_plain(v, fn)] for k, v in p["d"]]}
    return {"c": p["c"], "f": [[k, _map_plain(v, fn)] for k, v in p["f"]]}


# --------------------------------------------------------------------------- well-typedness of what the reader built
def _is_int(x):
    return isinstance(x, int) and not isinstance(x, bool)


def _ints(x):
    return isinstance(x, list) and all(_is_int(e) for e in x)


def _mesh_ok(x):
    return _is_int(x) or (isinstance(x, list) and all(_mesh_ok(e) for e in x))


def _tensor_ok(t, M):
    return (type(t) is M.TensorEntry and t.type == "Tensor" and all(isinstance(s, str) for s in (t.location, t.serializer, t.dtype))
            and _ints(t.shape) and isinstance(t.replicated, bool) and (t.byte_range is None or _ints(t.byte_range)))


def _shards_ok(l, M):
    return isinstance(l, list) and all(type(s) is M.Shard and _ints(s.offsets) and _ints(s.sizes) and _tensor_ok(s.tensor, M) for s in l)


def well_typed(md, M) -> bool:
    if not (isinstance(md.version, str) and _is_int(md.world_size) and isinstance(md.manifest, dict)):
        return False
    for p, e in md.manifest.items():
        n = type(e).__name__
        if n == "ListEntry":
            ok = True
        elif n in ("DictEntry", "OrderedDictEntry"):
            ok = isinstance(e.keys, list) and all(isinstance(k, (str, int)) for k in e.keys)
        elif n == "PrimitiveEntry":
            ok = isinstance(e.serialized_value, str) and isinstance(e.replicated, bool)
        elif n == "TensorEntry":
            ok = _tensor_ok(e, M)
        elif n == "ShardedTensorEntry":
            ok = _shards_ok(e.shards, M)
        elif n == "ChunkedTensorEntry":
            ok = isinstance(e.dtype, str) and _ints(e.shape) and _shards_ok(e.chunks, M) and isinstance(e.replicated, bool)
        elif n == "DTensorEntry":
            ok = (_shards_ok(e.shards, M) and _mesh_ok(e.mesh) and isinstance(e.dim_map, list) and all(_ints(d) for d in e.dim_map))
        elif n == "ObjectEntry":
            ok = all(isinstance(s, str) for s in (e.location, e.serializer, e.obj_type)) and isinstance(e.replicated, bool)
        else:
            ok = False
        if not ok:
            return False
    return True


def has_float(x) -> bool:
    if isinstance(x, float):
        return True
    if isinstance(x, list):
        return any(has_float(e) for e in x)
    if isinstance(x, dict):
        return any(has_float(v) for v in x.values())
    return False


# --------------------------------------------------------------------------- Python -> Coq terms of the model types
PK = {"int": "PInt", "str": "PStr", "bool": "PBool", "bytes": "PBytes", "float": "PFloat"}


def key_term(k):
    if isinstance(k, bool):
        return Ctor("KBool", k)
    if isinstance(k, int):
        return Ctor("KInt", k)
    return Ctor("KStr", k)


def tensor_term(t):
    return Ctor("mkTensor", t.location, t.serializer, t.dtype, list(t.shape), t.replicated,
                None if t.byte_range is None else Some(list(t.byte_range)))


def shard_term(s):
    return Ctor("mkShard", list(s.offsets), list(s.sizes), tensor_term(s.tensor))


def mesh_term(m):
    if isinstance(m, list):
        return Ctor("MList", [mesh_term(e) for e in m])
    return Ctor("MInt", m)


def entry_term(e):
    n = type(e).__name__
    if n == "ListEntry":
        return Raw("EList")
    if n == "DictEntry":
        return Ctor("EDict", [key_term(k) for k in e.keys])
    if n == "OrderedDictEntry":
        return Ctor("EOrderedDict", [key_term(k) for k in e.keys])
    if n == "PrimitiveEntry":
        return Ctor("EPrim", Raw(PK[e.type]), e.serialized_value, e.replicated, None if e.readable is None else Some(e.readable))
    if n == "TensorEntry":
        return Ctor("ETensor", tensor_term(e))
    if n == "ShardedTensorEntry":
        return Ctor("ESharded", [shard_term(s) for s in e.shards])
    if n == "ChunkedTensorEntry":
        return Ctor("EChunked", e.dtype, list(e.shape), [shard_term(s) for s in e.chunks], e.replicated)
    if n == "DTensorEntry":
        return Ctor("EDTensor", [shard_term(s) for s in e.shards], mesh_term(e.mesh), [list(d) for d in e.dim_map])
    if n == "ObjectEntry":
        return Ctor("EObject", e.location, e.serializer, e.obj_type, e.replicated)
    raise TypeError(n)


def md_term(md) -> str:
    man = "[" + "; ".join(f"({term(p)}, {term(entry_term(e))})" for p, e in md.manifest.items()) + "]"
    return f"(mkMd {term(md.version)} {term(md.world_size)} {man})"


def jval(v):
    """json.loads result -> the val encoding of Json.val_of_jvalue"""
    if v is None:
        return [0]
    if isinstance(v, bool):
        return [1, v]
    if isinstance(v, int):
        return [2, v]
    if isinstance(v, str):
        return [3, v]
    if isinstance(v, list):
        return [4] + [jval(e) for e in v]
    if isinstance(v, dict):
        return [5] + [[k, jval(e)] for k, e in v.items()]
    raise TypeError(type(v))


# --------------------------------------------------------------------------- the direct oracle (real code only)
def kinds_of(md):
    return sorted({type(e).__name__ + (":" + e.type if type(e).__name__ == "PrimitiveEntry" else "") for e in md.manifest.values()})


def storage_roundtrip(md, fill=False):
    """Snapshot._write_snapshot_metadata -> in-memory storage plugin -> Snapshot._read_snapshot_metadata.
    fill=False: the plugin REPLACES read_io.buf (as the fs and s3 plugins do); fill=True: it writes into the buffer the
    caller supplied and rewinds it (as the gcs plugin's chunked download does)."""
    import asyncio
    import io
    from torchsnapshot.io_types import StoragePlugin
    from torchsnapshot.snapshot import Snapshot

    class Mem(StoragePlugin):
        def __init__(self):
            self.d = {}

        async def write(self, write_io):
            self.d[write_io.path] = bytes(write_io.buf)

        async def read(self, read_io):
            if fill:
                read_io.buf.write(self.d[read_io.path])
                read_io.buf.seek(0)
            else:
                read_io.buf = io.BytesIO(self.d[read_io.path])

        async def delete(self, path):
            pass

        async def delete_dir(self, path):
            pass

        async def close(self):
            pass
    st = Mem()
    loop = asyncio.new_event_loop()
    try:
        Snapshot._write_snapshot_metadata(snapshot_metadata=md, storage=st, event_loop=loop)
        return Snapshot._read_snapshot_metadata(storage=st, event_loop=loop)
    finally:
        loop.close()


def oracle_roundtrip(md, M, res: Result, objs=None):
    """SnapshotMetadata.from_yaml(md.to_yaml()) == md up to `readable`; get_value() bit-identical."""
    replay = {"kind": "roundtrip", "md": plain(md)}
    pair = any(has_pair(s) for s in strings_of(md, []))
    try:
        doc = md.to_yaml()
    except Exception as e:
        res.failures.append(Failure(f"C14:to_yaml-raises:{type(e).__name__}:{'+'.join(kinds_of(md))[:80]}",
                                    f"to_yaml raised {type(e).__name__}: {str(e)[:200]}", replay))
        return None
    try:
        back = M.SnapshotMetadata.from_yaml(doc)
    except Exception as e:
        res.failures.append(Failure(f"C14:roundtrip-raises:{type(e).__name__}:{'+'.join(kinds_of(md))[:80]}",
                                    f"from_yaml(to_yaml(md)) raised {type(e).__name__}: {str(e)[:200]}", replay))
        return doc
    if not strict_eq(md, back):
        if pair and strict_eq(map_strings(md, merge_pairs, M), back):
            if REPORT_ADJACENT_PAIR:
                res.failures.append(Failure(
                    SIG_PAIR, "a str holding a high surrogate code point immediately followed by a low surrogate code point is "
                    f"read back as one non-BMP character ({len(md.manifest)} entries written, {len(back.manifest)} read back)", replay))
        else:
            bad = [p for p in md.manifest if p not in back.manifest or not strict_eq(md.manifest[p], back.manifest[p])]
            kind = type(md.manifest[bad[0]]).__name__ if bad else "metadata"
            res.failures.append(Failure(f"C14:roundtrip-differs:{kind}",
                                        f"manifest read back differs from the one written at {[cps(p) for p in bad[:3]]}", replay))
        return doc
    # the same through the real write/read path of the snapshot (utf-8 encode, storage plugin, decode)
    for fill in (False, True):
        how = "a plugin that fills the supplied buffer" if fill else "a plugin that replaces the buffer"
        try:
            back2 = storage_roundtrip(md, fill=fill)
            if not strict_eq(md, back2):
                res.failures.append(Failure("C14:write-path-differs", "metadata written through Snapshot._write_snapshot_metadata and read "
                                            f"back through _read_snapshot_metadata ({how}) differs from the one written", dict(replay, fill=fill)))
        except Exception as e:
            res.failures.append(Failure(f"C14:write-path-raises:{type(e).__name__}",
                                        f"writing/reading the metadata through the storage path ({how}; earlier documents of other sizes were read in this process) raised {type(e).__name__}: {str(e)[:200]}", dict(replay, fill=fill)))
    # get_value is preserved bit for bit
    for p, e in md.manifest.items():
        if type(e).__name__ == "PrimitiveEntry":
            try:
                a, b = e.get_value(), back.manifest[p].get_value()
            except Exception as ex:
                res.failures.append(Failure(f"C14:get_value-raises:{e.type}", f"get_value raised {type(ex).__name__}: {ex}", replay))
                continue
            if not strict_eq(a, b):
                res.failures.append(Failure(f"C14:get_value-differs:{e.type}", f"get_value {a!r} became {b!r}", replay))
    return doc


def oracle_from_object(obj, M, res: Result):
    """value -> from_object -> to_yaml -> from_yaml -> get_value is the identity, bit for bit"""
    md = M.SnapshotMetadata("0.0.1", 1, {"0/x": M.PrimitiveEntry.from_object(obj)})
    rep = {"kind": "from_object", "type": type(obj).__name__,
           "obj": (bits_of_float(obj).hex() if isinstance(obj, float) else obj.hex() if isinstance(obj, bytes)
                   else cps(obj) if isinstance(obj, str) else str(obj))}
    try:
        got = M.SnapshotMetadata.from_yaml(md.to_yaml()).manifest["0/x"].get_value()
    except Exception as e:
        res.failures.append(Failure(f"C14:from_object-roundtrip-raises:{type(obj).__name__}", f"{type(e).__name__}: {str(e)[:200]}", rep))
        return
    if not strict_eq(obj, got):
        cls = float_class(struct.unpack("<Q", bits_of_float(obj))[0]) if isinstance(obj, float) else ""
        res.failures.append(Failure(f"C14:from_object-roundtrip-differs:{type(obj).__name__}:{cls}",
                                    f"value {obj!r} ({rep['obj']}) read back as {got!r}", rep))


def classify_read(s: str, M):
    """what the real reader does with text s: (code, re-serialised text | None, note)"""
    try:
        j = json.loads(s)
    except ValueError:
        j = None
        code = 0
    else:
        code = 1
    try:
        md = M.SnapshotMetadata.from_yaml(s)
    except Exception as e:
        return (code, None, type(e).__name__, j)
    if code == 0:
        return (0, md, "yaml-fallback-accepted", j)
    return (2, md, "", j)


def oracle_prefixes(md, M, res: Result, ks=None):
    doc = md.to_yaml()
    accepted = []
    for k in (range(len(doc)) if ks is None else ks):
        try:
            M.SnapshotMetadata.from_yaml(doc[:k])
            accepted.append(k)
        except Exception:
            pass
    if accepted:
        res.failures.append(Failure("C14:strict-prefix-accepted",
                                    f"from_yaml accepted the strict prefix of length {accepted[0]} of a {len(doc)}-character document",
                                    {"kind": "prefix", "md": plain(md), "k": accepted[0]}))
    return doc


# --------------------------------------------------------------------------- malformed stream
def mutate(rng, doc: str) -> str:
    if not doc:
        return rng.choice(["{", "}", "\"", "[", "null"])
    specials = [i for i, c in enumerate(doc) if c in '{}[]",:\\']
    r = rng.random()
    i = rng.choice(specials) if specials and r < 0.8 else rng.randrange(len(doc))
    op = rng.choice(["del", "dup", "ins", "swap", "trunc", "tail", "esc", "ws", "case", "num"])
    if op == "del":
        return doc[:i] + doc[i + 1:]
    if op == "dup":
        return doc[:i] + doc[i] + doc[i:]
    if op == "ins":
        return doc[:i] + rng.choice(['{', '}', '[', ']', '"', ',', ':', '\\', '\\u', '\\ud800', '\\udc00', '\x00', '\n', '\t', '\r',
                                     '\x0b', '\xa0', '\ufeff', '/', '\\/', '-', '0', '1', 'null', 'true', 'false', ' ', 'x',
                                     '\\uD83D\\uDE00', '\\uD83D', '\\ud83d\\u0041', '\\ud83d\\n', '\\ud83d\\uzzzz', '\\u00e', '\\x']) + doc[i:]
    if op == "swap":
        j = rng.randrange(len(doc))
        l = list(doc)
        l[i], l[j] = l[j], l[i]
        return "".join(l)
    if op == "trunc":
        return doc[:i]
    if op == "tail":
        return doc + rng.choice([" ", "\n", "\n\n", "}", "x", ",", "{}", "\x00", "null", "\t\r "])
    if op == "esc":
        bs = [k for k, c in enumerate(doc) if c == "\\"]
        if bs:
            k = rng.choice(bs)
            return doc[:k] + doc[k + 1:] if rng.random() < 0.5 else doc[:k + 2] + doc[k + 3:]
        return doc[:i] + "\\" + doc[i:]
    if op == "ws":
        return doc.replace("\n", rng.choice(["", " ", "\r\n", "\n\t"])).replace(": ", rng.choice([":", " :  ", ":\n"]))
    if op == "case":
        for a, b in (("true", "True"), ("false", "False"), ("null", "None"), ("null", "nul"), ("\\u", "\\U"), ("\\ud", "\\uD")):
            if a in doc and rng.random() < 0.5:
                return doc.replace(a, b, 1)
        return doc.upper() if rng.random() < 0.2 else doc[:i] + doc[i].upper() + doc[i + 1:]
    ds = [k for k, c in enumerate(doc) if c.isdigit()]
    if ds:
        k = rng.choice(ds)
        return doc[:k] + rng.choice(["0", "-", "00", "-0", "01", "+1", "1 2"]) + doc[k:]
    return doc[:i] + "0" + doc[i:]


# --------------------------------------------------------------------------- the correspondences
def add_mism(res, where, errs, bad, describe):
    for e in errs:
        res.mismatches.append(Mismatch(where, "coqc error", None, e))
    for i in bad:
        res.mismatches.append(Mismatch(where, describe(i)))


def check_codec(ctx: Ctx, res: Result, M):
    rng = ctx.rng
    ints = list(BIG_INTS) + [rng.randint(-10**40, 10**40) for _ in range(ctx.n(30, 300))] + list(range(-12, 13)) + \
        [10**k for k in range(0, 41, 3)] + [-(10**k) + 1 for k in range(1, 41, 5)]
    cases = [(term(z), val(str(z))) for z in ints]
    bad, errs = coqrun.run_cases("C14_int", IMPORTS, "obs_str_of_int", cases)
    add_mism(res, W_CODEC, errs, bad, lambda i: {"int": str(ints[i])})
    for z in ints:
        oracle_from_object(z, M, res)
        res.count("codec.int_digits", len(str(abs(z))) // 10 * 10)
    blobs = [bytes(range(256)), b""] + [bytes(range(n)) for n in range(1, 8)] + [bytes([255] * n) for n in range(1, 5)] + \
        [bytes(rng.randrange(256) for _ in range(rng.choice([1, 2, 3, 4, 5, 8, 9, 31]))) for _ in range(ctx.n(30, 300))]
    cases = [(term(list(b)), val([base64.b64encode(b).decode(), [list(b)]])) for b in blobs]
    bad, errs = coqrun.run_cases("C14_b64", IMPORTS, "obs_b64", cases)
    add_mism(res, W_CODEC, errs, bad, lambda i: {"bytes": list(blobs[i])})
    for b in blobs:
        oracle_from_object(b, M, res)
        res.count("codec.bytes_len_mod3", len(b) % 3)
    # get_value on what from_object produced (all five kinds), model vs real
    objs = ints[:25] + blobs[:12] + [True, False] + [float_of_bits(b) for b in FLOAT_BITS] + \
        [float_of_bits(rng.getrandbits(64)) for _ in range(ctx.n(20, 200))] + [gen_str(rng, 8) for _ in range(ctx.n(20, 200))]
    cases = []
    for o in objs:
        e = M.PrimitiveEntry.from_object(o)
        inp = f"({term(e.type)}, {term(e.serialized_value)})" if USE_GEN else f"({PK[e.type]}, {term(e.serialized_value)})"
        try:
            g = e.get_value()
            tag = {int: 0, str: 1, bool: 2, bytes: 3, float: 4}[type(g)]
            cases.append((inp, val([tag, list(bits_of_float(g)) if tag == 4 else list(g) if tag == 3 else g])))
        except Exception:
            cases.append((inp, "(VL [])"))            # get_value raises on what from_object wrote (the oracle below reports it)
        if isinstance(o, (bool, str)):
            oracle_from_object(o, M, res)
        if isinstance(o, float):
            res.count("codec.float_class", float_class(struct.unpack("<Q", bits_of_float(o))[0]))
            oracle_from_object(o, M, res)
        res.case({"kind": "from_object", "type": e.type, "sv": cps(e.serialized_value)[:40]}, True)
    bad, errs = coqrun.run_cases("C14_gv", IMPORTS_GEN if USE_GEN else IMPORTS, "obs_get_value_gen" if USE_GEN else "obs_get_value", cases,
                                 in_type="pystr * pystr" if USE_GEN else "pkind * pystr")
    add_mism(res, W_CODEC, errs, bad, lambda i: {"get_value": repr(objs[i])[:200]})
    res.traces_validated += len(ints) + len(blobs) + len(objs)


def check_escape(ctx: Ctx, res: Result):
    rng = ctx.rng
    pts = ENUM_POINTS if ctx.thorough else (
        list(range(0x00, 0xA0)) + [0xD7FF, 0xD800, 0xD801, 0xDBFE, 0xDBFF, 0xDC00, 0xDC01, 0xDFFE, 0xDFFF, 0xE000] +
        rng.sample(range(0xD802, 0xDFFE), 60) + [0x2028, 0x2029, 0xFEFF, 0xFFFE, 0xFFFF, 0x10000, 0x10FFFF])
    strs = [chr(c) for c in pts] + [gen_str(rng, 10) for _ in range(ctx.n(150, 1500))]
    strs += [chr(0xD800) + chr(0xDC00), chr(0xDC00) + chr(0xD800), chr(0xDBFF) + chr(0xDFFF) + chr(0xDBFF)]   # printing is total
    cases = [(term(s), val(json.dumps(s))) for s in strs]
    bad, errs = coqrun.run_cases("C14_esc", IMPORTS, "obs_quote", cases)
    add_mism(res, W_ESC, errs, bad, lambda i: {"str": cps(strs[i])})
    # string literals read back by json.loads (well-formed and damaged)
    lits = [json.dumps(s) for s in strs]
    extra = ['"\\ud800\\udc00"', '"\\uD800\\uDC00"', '"\\ud800\\u0041"', '"\\ud800\\ud800\\udc00"', '"\\udc00\\ud800"', '"\\ud800"',
             '"\\ud800\\udc0"', '"\\ud800\\udc0g"', '"\\ud800\\u"', '"\\ud800\\', '"\\ud800\\n"', '"\\ud800x"', '"\\u00e9"', '"\\u00E9"',
             '"\\u00g9"', '"\\u+0e9"', '"\\u 0e9"', '"\\/"', '"\\x41"', '"\\a"', '"\t"', '"\x1f"', '"\x7f"', '"\u2028"', '"\u00e9"', '"\\"',
             '"', '""', '"a', 'a"', '"\\ud83d\\ude00\\ud83d"', '"\\U0001F600"', "'a'", '"a"b"', '"a" ', ' "a"', '"\\ud800\\ud800\\udc0"',
             '"\\ud800\\udbff\\udc00\\udc00"', '"\\udbff\\udfff"', '"\\ud7ff\\udc00"', '"\\udc00\\udc00"', '"\\ud800\\ue000"']
    for s in list(lits[:ctx.n(120, 1200)]):
        if len(s) > 2:
            k = rng.randrange(len(s))
            extra.append(s[:k] + s[k + 1:])
            extra.append(s[:k])
    lits += extra
    cases = []
    for t in lits:
        try:
            v = json.loads(t)
            exp = [v] if isinstance(v, str) and not t[:1].isspace() and not t[-1:].isspace() else None
        except ValueError:
            exp = None
        cases.append((term(t), val(exp)))
        res.count("escape.literal", "accepted" if exp is not None else "rejected")
    bad, errs = coqrun.run_cases("C14_unesc", IMPORTS, "obs_unescape", cases)
    add_mism(res, W_ESC, errs, bad, lambda i: {"literal": cps(lits[i])})
    res.traces_validated += len(strs) + len(lits)


def read_case(s: str, M, res: Result, dyn: bool = False):
    """expected observation of obs_read / obs_read_gen on text s, or None when the case is outside the model.
    dyn: the generated reader is dynamically typed like Python, so ill-typed documents stay in; the hand-written typed
    model (used only when the translator failed) rejects them and they are left out."""
    code, md, note, j = classify_read(s, M)
    if code == 0:
        res.count("read.outcome", "json-rejects" + ("(yaml accepts)" if md is not None else ""))
        if md is not None:
            # accepted although json.loads rejects: legitimate only when the legacy YAML loader reads the text
            import yaml
            try:
                yaml.load(s, Loader=M.Loader)
            except Exception:
                res.mismatches.append(Mismatch(W_READ, {"doc": cps(s)[:400]},
                                               "accepted although json.loads and the YAML loader both reject the text", "rejected"))
        return [0]
    if has_float(j):
        res.count("read.outcome", "outside-model:float")
        return None
    if md is None:
        res.count("read.outcome", "decode-raises:" + note)
        return [1]
    if not well_typed(md, M):
        if not dyn:
            res.count("read.outcome", "outside-model:ill-typed")
            return None
        res.count("read.outcome", "accepted:ill-typed")
    else:
        res.count("read.outcome", "accepted")
    try:
        return [2, md.to_yaml()]
    except Exception:
        return [3]


def check_docs(ctx: Ctx, res: Result, M):
    rng = ctx.rng
    mds = corpus_mds(M)
    pts = ENUM_POINTS if ctx.thorough else (
        list(range(0x00, 0xA0)) + [0xD7FF, 0xD800, 0xDBFF, 0xDC00, 0xDFFF, 0xE000] + rng.sample(range(0xD801, 0xDFFF), 40) +
        [0x2028, 0x2029, 0xFEFF, 0xFFFE, 0xFFFF, 0x10000, 0x10FFFF])
    mds += class_mds(M, pts)
    mds += [gen_md(rng, M) for _ in range(ctx.n(70, 1000))]
    print_cases, read_cases, read_docs = [], [], []
    for md in mds:
        doc = oracle_roundtrip(md, M, res)
        res.case({"kind": "roundtrip", "entries": kinds_of(md), "chars": None if doc is None else len(doc)}, len(md.manifest) > 0)
        for k in kinds_of(md):
            res.count("doc.entry_kind", k)
        res.count("doc.size", "none" if doc is None else len(doc) // 500 * 500)
        if doc is None:
            continue
        print_cases.append((md_term(md), val([doc] if USE_GEN else doc)))
        exp = read_case(doc, M, res, USE_GEN)
        if exp is not None:
            read_cases.append((term(doc), val(exp)))
            read_docs.append(doc)
    # every enumerated code point through the real code (cheap, both tiers), independent of the Coq sample above
    for md in class_mds(M, ENUM_POINTS):
        oracle_roundtrip(md, M, res)
    for md in pair_witnesses(M):
        doc = oracle_roundtrip(md, M, res)
        if doc is None:
            continue
        print_cases.append((md_term(md), val([doc] if USE_GEN else doc)))
        exp = read_case(doc, M, res, USE_GEN)
        read_cases.append((term(doc), val(exp)))
        read_docs.append(doc)
    bad, errs = coqrun.run_cases("C14_print", IMPORTS_GEN if USE_GEN else IMPORTS, "obs_to_yaml_gen" if USE_GEN else "obs_to_yaml",
                                 print_cases, shard=40)
    add_mism(res, W_PRINT, errs, bad, lambda i: {"doc": print_cases[i][1][:300]})
    # malformed stream
    base = [d for d in read_docs if len(d) < 900]
    for _ in range(ctx.n(400, 5000)):
        d = rng.choice(base)
        m = mutate(rng, d)
        if rng.random() < 0.15:
            m = mutate(rng, m)
        exp = read_case(m, M, res, USE_GEN)
        res.case({"kind": "malformed", "doc": cps(m)[:120]}, len(m) > 0)
        if exp is not None:
            read_cases.append((term(m), val(exp)))
            read_docs.append(m)
    for m in ["", " ", "{}", "[]", "null", "0", '""', '{"manifest": {}}', '{"version": "v", "world_size": 1, "manifest": {}}',
              '{"version": "v", "world_size": 1, "manifest": {}, "x": 1}', '{"version": "v", "world_size": 1, "manifest": []}',
              '{"version": "v", "world_size": 1, "manifest": {"a": {"type": "nope"}}}',
              '{"version": "v", "world_size": 1, "manifest": {"a": {"type": 3}}}',
              '{"version": "v", "world_size": 1, "manifest": {"a": {}}}', '{"version": "v", "world_size": 1, "manifest": {"a": []}}',
              '{"version": "v", "world_size": 1, "manifest": {"a": {"type": "list"}, "a": {"type": "dict", "keys": []}}}',
              '{"version": "v", "world_size": 1, "manifest": {"a": {"type": "list", "type": "dict", "keys": []}}}',
              '{"version": "v", "world_size": 1, "manifest": {"a": {"type": "list", "x": 1}}}',
              '{"version": "v", "world_size": 1, "manifest": {"a": {"type": "int", "serialized_value": "1", "replicated": false}}}',
              '{"version": "v", "world_size": 1, "manifest": {"a": {"type": "Tensor", "location": "l", "serializer": "s", "dtype": "d", '
              '"shape": [], "replicated": true}}}',
              '{"manifest": {}, "world_size": 1, "version": "v"}', '\n{"version": "v", "world_size": 1, "manifest": {}}\n\t ',
              '{"version": "v", "world_size": 1, "manifest": {}} x', '{"version": "v", "world_size": 1e0, "manifest": {}}',
              '{"version": "v", "world_size": -0, "manifest": {}}', '{"version": "v", "world_size": 01, "manifest": {}}',
              '{"version": "v", "world_size": NaN, "manifest": {}}', '{"version": "v", "world_size": 1, "manifest": {},}',
              # documents the real (untyped) reader accepts or rejects for dynamic reasons
              '{"version": 1, "world_size": "x", "manifest": {}}', '{"version": null, "world_size": [1, {"a": true}], "manifest": {}}',
              '{"version": "v", "world_size": 1, "manifest": {"a": {"type": "Tensor", "location": 5, "serializer": null, "dtype": [], '
              '"shape": "s", "replicated": 0}}}',
              '{"version": "v", "world_size": 1, "manifest": {"a": {"type": "ShardedTensor", "shards": {}}}}',
              '{"version": "v", "world_size": 1, "manifest": {"a": {"type": "ShardedTensor", "shards": ""}}}',
              '{"version": "v", "world_size": 1, "manifest": {"a": {"type": "ShardedTensor", "shards": "ab"}}}',
              '{"version": "v", "world_size": 1, "manifest": {"a": {"type": "ShardedTensor", "shards": {"k": 1}}}}',
              '{"version": "v", "world_size": 1, "manifest": {"a": {"type": "ShardedTensor", "shards": 3}}}',
              '{"version": "v", "world_size": 1, "manifest": {"a": {"type": "ChunkedTensor", "dtype": 1, "shape": 2, "chunks": [], "replicated": 3}}}',
              '{"version": "v", "world_size": 1, "manifest": {"a": {"type": "DTensor", "shards": [{"offsets": 1, "sizes": "z", "tensor": '
              '{"location": "l", "serializer": "s", "dtype": "d", "shape": [], "replicated": true}}], "mesh": "m", "dim_map": null}}}',
              '{"version": "v", "world_size": 1, "manifest": {"a": {"type": "DTensor", "shards": [{"offsets": 1, "sizes": 2, "tensor": '
              '{"location": "l", "serializer": "s", "dtype": "d", "shape": [], "replicated": true}, "x": 1}], "mesh": 0, "dim_map": []}}}',
              '{"version": "v", "world_size": 1, "manifest": {"a": {"type": "ShardedTensor", "shards": [{"offsets": [], "sizes": [], "tensor": "type"}]}}}',
              '{"version": "v", "world_size": 1, "manifest": {"a": {"type": "ShardedTensor", "shards": [{"offsets": [], "sizes": [], "tensor": []}]}}}',
              '{"version": "v", "world_size": 1, "manifest": {"a": {"type": "int", "serialized_value": 5, "replicated": null, "readable": 1}}}',
              '{"version": "v", "world_size": 1, "manifest": {"a": {"type": "int", "serialized_value": "5", "replicated": false, "readable": null, '
              '"readable_value": "five"}}}',
              '{"version": "v", "world_size": 1, "manifest": {"a": {"type": "float", "serialized_value": "5", "replicated": false, "readable_value": "x"}}}',
              '{"version": "v", "world_size": 1, "manifest": {"a": {"type": ["list"]}, "b": {"type": null}, "c": {"type": {"list": 1}}, "d": {"type": "list"}}}',
              '{"version": "v", "world_size": 1, "manifest": {"a": {"type": "List"}, "b": {"type": "list "}, "c": {"type": ""}}}',
              '{"version": "v", "world_size": 1, "manifest": {"a": "type"}}', '{"version": "v", "world_size": 1, "manifest": {"a": ["type"]}}',
              '{"version": "v", "world_size": 1, "manifest": {"a": null}}', '{"version": "v", "world_size": 1, "manifest": "type"}',
              '{"version": "v", "world_size": 1, "manifest": null}', '["version", "world_size", "manifest"]', '"manifest"',
              '{"version": "v", "world_size": 1, "manifest": {"a": {"type": "object", "location": "l", "serializer": "s", "obj_type": "o"}}}',
              '{"version": "v", "world_size": 1, "manifest": {"a": {"type": "object", "location": "l", "serializer": "s", "obj_type": "o", '
              '"replicated": true, "byte_range": null}}}',
              '{"version": "v", "world_size": 1, "manifest": {"a": {"type": "dict", "keys": "abc"}, "b": {"type": "OrderedDict", "keys": null}}}',
              '{"version": "v", "world_size": 1, "manifest": {"a": {"type": "dict"}}}',
              '{"version": "v", "world_size": 1, "manifest": {"a": {"type": "Tensor", "location": "l", "serializer": "s", "dtype": "d", '
              '"shape": [1], "replicated": true, "byte_range": [1]}}}']:
        exp = read_case(m, M, res, USE_GEN)
        if exp is not None:
            read_cases.append((term(m), val(exp)))
            read_docs.append(m)
    bad, errs = coqrun.run_cases("C14_read", IMPORTS_GEN if USE_GEN else IMPORTS, "obs_read_gen" if USE_GEN else "obs_read",
                                 read_cases, shard=40)
    add_mism(res, W_READ, errs, bad,
             lambda i: {"doc": cps(read_docs[i])[:400], "impl": read_cases[i][1][:200]})
    res.traces_validated += len(print_cases) + len(read_cases)
    return mds


def check_prefixes(ctx: Ctx, res: Result, M, mds):
    rng = ctx.rng
    small = [md for md in mds if 0 < len(md.manifest) <= 3]
    docs = [(md, md.to_yaml()) for md in small]
    docs = [(md, d) for md, d in docs if len(d) <= 420]
    rng.shuffle(docs)
    fixed = M.SnapshotMetadata("0.0.1", 1, {"0/a\ud83d": M.DictEntry(keys=["x\U0001f600", -5, True]),
                                            "0/a/x": M.PrimitiveEntry.from_object(float_of_bits(0x7FF0000000000001))})
    chosen = [(fixed, fixed.to_yaml())] + docs[:ctx.n(3, 100)]
    cases = []
    for md, doc in chosen:
        oracle_prefixes(md, M, res)
        exp = []
        for k in range(len(doc)):
            e = read_case(doc[:k], M, res, USE_GEN)
            exp.append(e if e is not None else [0])
        cases.append((term(doc), val(exp)))
        res.case({"kind": "prefixes", "chars": len(doc), "entries": kinds_of(md)}, True)
        res.count("prefix.doc_len", len(doc) // 100 * 100)
        res.traces_validated += len(doc)
    # the real reader alone on every prefix of more (and larger) documents
    for md in mds[:ctx.n(25, 250)]:
        d = md.to_yaml()
        if len(d) <= 3000:
            oracle_prefixes(md, M, res)
            res.traces_validated += len(d)
    bad, errs = coqrun.run_cases("C14_prefix", IMPORTS_GEN if USE_GEN else IMPORTS, "obs_prefixes_gen" if USE_GEN else "obs_prefixes",
                                 cases, shard=2)
    add_mism(res, W_PREFIX, errs, bad, lambda i: {"doc": cps(chosen[i][1])})


def pvalue_term(o) -> str:
    if isinstance(o, bool):
        return term(Ctor("VBool", o))
    if isinstance(o, int):
        return term(Ctor("VInt", o))
    if isinstance(o, str):
        return term(Ctor("VStr", o))
    if isinstance(o, bytes):
        return term(Ctor("VBytes", list(o)))
    if isinstance(o, float):
        return term(Ctor("VFloat", list(bits_of_float(o))))
    raise TypeError(type(o))


def check_primitive(ctx: Ctx, res: Result, M):
    """PrimitiveEntry.from_object / get_value and TensorEntry.byte_range_tuple of the real classes against the generated
    chains (g_from_object, g_get_value, g_byte_range_tuple)"""
    rng = ctx.rng
    # from_object: the entry built (type, serialized_value, replicated, readable)
    objs = ([gen_int(rng) for _ in range(ctx.n(15, 150))] + [True, False, "", b"", 0, -1] + [gen_str(rng, 8) for _ in range(ctx.n(15, 150))] +
            [bytes(rng.randrange(256) for _ in range(rng.choice([1, 2, 3, 4, 7, 16]))) for _ in range(ctx.n(10, 100))] +
            [float_of_bits(b) for b in FLOAT_BITS] + [float_of_bits(rng.getrandbits(64)) for _ in range(ctx.n(10, 100))])
    cases = []
    for o in objs:
        e = M.PrimitiveEntry.from_object(o)
        oracle_from_object(o, M, res)
        cases.append((f"({pvalue_term(o)}, {term(e.readable or '')})",
                      val([e.type, e.serialized_value, e.replicated, None if e.readable is None else [e.readable]])))
        res.count("primitive.from_object", e.type)
    bad, errs = coqrun.run_cases("C14_fo", IMPORTS_GEN, "obs_from_object_gen", cases, in_type="pvalue * pystr")
    add_mism(res, W_PRIM, errs, bad, lambda i: {"from_object": repr(objs[i])[:200], "impl": cases[i][1][:200]})
    # get_value on arbitrary (type, serialized_value) pairs: unsupported type names and malformed values raise
    pairs = [("int", "12"), ("int", "-0"), ("int", "+7"), ("int", ""), ("int", "-"), ("int", "12a"), ("int", "0x10"), ("int", "1.0"),
             ("bool", "True"), ("bool", "False"), ("bool", "true"), ("bool", ""), ("bool", "1"), ("bool", "TRUE"), ("bool", "Falsee"),
             ("str", ""), ("str", "True"), ("str", "\ud800x"), ("bytes", ""), ("bytes", "AA=="), ("bytes", "AAA="), ("bytes", "AAAA"),
             ("float", "AAAAAAAA8D8="), ("float", "AAAA"), ("float", ""), ("float", "AAAAAAAAAAAAAAAA"),
             ("Int", "1"), ("", "1"), ("complex", "1"), ("list", "1"), ("Tensor", "1"), ("floa", "AAAAAAAA8D8="), ("float ", "AAAAAAAA8D8="),
             ("NoneType", "None")]
    cases = []
    for ty, sv in pairs:
        e = M.PrimitiveEntry(ty, sv, False)
        try:
            g = e.get_value()
            tag = {int: 0, str: 1, bool: 2, bytes: 3, float: 4}[type(g)]
            exp = [tag, list(bits_of_float(g)) if tag == 4 else list(g) if tag == 3 else g]
        except Exception:
            exp = None
        cases.append((f"({term(ty)}, {term(sv)})", val(exp) if exp is not None else "(VL [])"))
        res.count("primitive.get_value", "raises" if exp is None else ty)
    bad, errs = coqrun.run_cases("C14_gv2", IMPORTS_GEN, "obs_get_value_gen", cases, in_type="pystr * pystr")
    add_mism(res, W_PRIM, errs, bad, lambda i: {"get_value": list(pairs[i]), "impl": cases[i][1][:200]})
    # byte_range_tuple
    brs = [None, [0, 24], [5, 5], [2**40, 2**41], [1, 2, 3], [7], []]
    cases = []
    for br in brs:
        te = M.TensorEntry("l", "s", "d", [], False, br)
        try:
            r = te.byte_range_tuple
            exp = [1] if r is None else [2, r[0], r[1]]
        except Exception:
            exp = [0]
        cases.append((term(None if br is None else Some(br)), val(exp)))
    bad, errs = coqrun.run_cases("C14_brt", IMPORTS_GEN, "obs_byte_range_tuple_gen", cases, in_type="option (list Z)")
    add_mism(res, W_PRIM, errs, bad, lambda i: {"byte_range": brs[i]})
    res.traces_validated += len(objs) + len(pairs) + len(brs)


def gen_json(rng, depth=0):
    r = rng.random()
    if depth >= 3 or r < 0.45:
        return rng.choice([None, True, False, gen_int(rng), gen_str(rng, 5), 0, -1, ""])
    if r < 0.72:
        return [gen_json(rng, depth + 1) for _ in range(rng.choice([0, 1, 2, 3]))]
    return {gen_str(rng, 3): gen_json(rng, depth + 1) for _ in range(rng.choice([0, 1, 2, 3]))}


def check_parse(ctx: Ctx, res: Result):
    rng = ctx.rng
    texts = []
    for _ in range(ctx.n(120, 1500)):
        v = gen_json(rng)
        t = json.dumps(v, indent=rng.choice([2, 2, None, 0, 1]), separators=rng.choice([None, (",", ":"), (" , ", " : ")]))
        texts.append(t)
        texts.append(mutate(rng, t))
    texts += ['{"a":1,"a":2}', '{"a":1,"b":2,"a":3}', '[1,]', '[,1]', '{,}', '{"a":1,}', '{"a"}', '{"a":}', '{1:2}', '[1 2]', '-', '-0', '-01',
              '0123', '1.', '1.5', '1e5', '-Infinity', 'Infinity', 'NaN', 'nul', 'nulll', 'tru', 'True', '[]]', '[[]', '{}{}', '\ufeff{}',
              '\x0b[]', '\xa0[]', '[\n]', '{\r\t }', '[1\n,\r2\t]', '"\\ud800\\udc00"', '{"\\ud800\\udc00":1,"\\ud800\\udc00":2}',
              '{"\\ud800\\udc00": 1, "\U00010000": 2}', '9' * 60, '-' + '9' * 60, '[' * 30 + ']' * 30, '[' * 30 + ']' * 29]
    cases, kept = [], []
    for t in texts:
        try:
            v = json.loads(t)
        except ValueError:
            exp = None
        except RecursionError:
            continue
        else:
            if has_float(v) or isinstance(v, float):
                res.count("parse.outcome", "outside-model:float")
                continue
            exp = [jval(v)]
        res.count("parse.outcome", "accepted" if exp else "rejected")
        cases.append((term(t), val(exp)))
        kept.append(t)
    bad, errs = coqrun.run_cases("C14_parse", IMPORTS, "obs_parse", cases, shard=100)
    add_mism(res, W_PARSE, errs, bad, lambda i: {"text": cps(kept[i])[:300], "impl": cases[i][1][:200]})
    res.traces_validated += len(cases)


def correspond(ctx: Ctx) -> Result:
    global USE_GEN
    import torchsnapshot.manifest as M
    res = Result(rule=RULE)
    USE_GEN = gen_available()
    res.notes.append("model side of print/read/prefix/primitive: " + (
        "the terms generated from manifest.py (gen/ManifestGen.v through model/PyManifest.v)" if USE_GEN else
        "HAND-WRITTEN model only: translator/gen_manifest.py failed closed on this tree"))
    check_codec(ctx, res, M)
    check_escape(ctx, res)
    mds = check_docs(ctx, res, M)
    check_prefixes(ctx, res, M, mds)
    check_parse(ctx, res)
    if USE_GEN:
        check_primitive(ctx, res, M)
    return res


def search(ctx: Ctx, broken) -> Result:
    """after a broken obligation: the real code alone under the direct oracle, with a large budget (no coqc)"""
    import torchsnapshot.manifest as M
    res = Result(rule=RULE)
    rng = ctx.rng
    mds = corpus_mds(M) + class_mds(M, ENUM_POINTS) + [gen_md(rng, M) for _ in range(ctx.n(300, 1500))]
    for md in mds:
        oracle_roundtrip(md, M, res)
        res.case({"kind": "roundtrip", "entries": kinds_of(md)}, len(md.manifest) > 0)
    for md in mds[:ctx.n(40, 100)]:
        if len(md.to_yaml()) <= 3000:
            oracle_prefixes(md, M, res)
    for b in FLOAT_BITS + [rng.getrandbits(64) for _ in range(500)]:
        oracle_from_object(float_of_bits(b), M, res)
    for z in BIG_INTS + [gen_int(rng) for _ in range(300)]:
        oracle_from_object(z, M, res)
    for n in range(0, 40):
        oracle_from_object(bytes(rng.randrange(256) for _ in range(n)), M, res)
    for _ in range(500):
        oracle_from_object(gen_str(rng, 12), M, res)
    for b in (True, False):
        oracle_from_object(b, M, res)
    return res


def replay(ctx: Ctx, data):
    import torchsnapshot.manifest as M
    res = Result()
    if data["kind"] == "roundtrip":
        oracle_roundtrip(unplain(data["md"], M), M, res)
    elif data["kind"] == "prefix":
        oracle_prefixes(unplain(data["md"], M), M, res, ks=[data["k"]])
    elif data["kind"] == "from_object":
        t, o = data["type"], data["obj"]
        obj = (struct.unpack("d", bytes.fromhex(o))[0] if t == "float" else bytes.fromhex(o) if t == "bytes"
               else from_cps(o) if t == "str" else (o == "True") if t == "bool" else int(o))
        oracle_from_object(obj, M, res)
    return res.failures[0] if res.failures else None


MANIFEST = {
    "level_text": ("Machine-checked proof (Coq 8.16.1). The manifest.py part of the model is REGENERATED FROM THE SOURCE on every run "
                   "(translator/gen_manifest.py, fail closed): every entry dataclass (base class, fields in source order, __init__ "
                   "parameters with defaults, the `type` tag passed to super().__init__, the self.f = p assignments, every "
                   "from_yaml_obj body statement by statement), the if/elif dispatch chain, its fall-through and the json-first / "
                   "yaml-fallback loader order of SnapshotMetadata.from_yaml, the keyword arguments of the json.dumps call of "
                   "to_yaml, the PrimitiveType enum and the expression forms of PrimitiveEntry.get_value/_serialize/from_object. "
                   "coq/model/PyManifest.v interprets that data (constructor call, dataclasses.asdict, from_yaml_obj statements, "
                   "json.dumps options). Per-run proof obligations (proofs/ManifestInst.v): the generated to_yaml writes exactly "
                   "the text of the specification model for every metadata; for every entry of all nine kinds constructor, asdict, "
                   "dispatch and from_yaml_obj compose to the identity up to `readable`; generated get_value/from_object equal the "
                   "model's. On top of them the property theorems are restated over the generated terms: from_yaml(to_yaml md) = md "
                   "for every well-formed metadata, to_yaml injective, every strict prefix of a written document rejected, "
                   "from_object -> get_value identity bit for bit. Underneath, hand-written models of CPython: decimal/bool/base64 "
                   "codecs (int(str(z)) = z for every z; b64decode(b64encode bs) = bs; floats as 8 opaque bytes), "
                   "json.dumps(ensure_ascii=True) string escaping against the json.loads scanner (every string over 0..0x10FFFF "
                   "incl. lone surrogates), json.dumps(indent=2) against a json.loads model (parse(print v) = v; every strict prefix "
                   "of a printed object rejected). Generated terms and CPython models are tied to the code on every run by "
                   "differential execution of the real SnapshotMetadata.to_yaml/from_yaml (well-formed, ill-typed and malformed "
                   "documents, every strict prefix of sampled documents), PrimitiveEntry.from_object/get_value, json, base64 and "
                   "struct against the models inside coqc (vm_compute)."),
    "level_note": ("Trusted: Coq kernel + VM; translator/gen_manifest.py and the interpreter coq/model/PyManifest.v (including the typed "
                   "view of entry objects through class, constructor-keyword and attribute names), both exercised by the "
                   "differential harness on every run; the hand-written models of CPython's json/base64/struct C code (modelled, "
                   "not verified) and libyaml. The YAML fallback reader is a Section variable: round trips never reach it, prefix "
                   "rejection assumes it rejects strict prefixes (tested on every sampled prefix). Forced hypothesis: no high "
                   "surrogate code point immediately followed by a low one (json.loads joins them) - reported as a known finding. "
                   "Not translated: ShardedTensorEntry.get_tensor_shape (not serialization); manifest.py has no key-escaping helper."),
    "technique": ("Coq proof over terms regenerated from the source (Python ast -> Gallina data + interpreter; instantiation lemmas by "
                  "case analysis and computation), structural induction, fuel-based recursive-descent parser; vm_compute "
                  "correspondence of the generated terms against the real code"),
    "design_ref": "DESIGN.md section 5, C14",
}
