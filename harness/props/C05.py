"""C05 - Committed manifest entries exist, fit, are disjoint, written once, confined.

Real Snapshot.take in the simulated world (lib.world.World, W = 1..4) on generated application states with adversarial
key names; the committed snapshot is then inspected directly (the oracle) and the locations / resolutions / overlaps
are compared with the Coq model (coq/model/StoragePath.v) evaluated inside coqc."""
from __future__ import annotations

import fnmatch
import os
import shutil
import zlib
from collections import OrderedDict

from lib import coqrun
from lib.core import Ctx, Failure, Mismatch, Result
from lib.tocoq import Some, term, val

PROP = "C05"
PROPS_FILE = "props/C05.v"
GEN = ["gen_flatten", "gen_partition", "gen_dispatch"]
CORRESPONDENCES = [
    "location:prepare_write~model",
    "manifest-path:_gather_manifest~model",
    "resolve:os.path~model",
    "overlap:manifest-references~model",
]
RULE = ("corpus (the three known findings in several variants, the legacy '..' escape, escaping pairs, leaf '' key, "
        "2-d chunk clash, sharded clash, multi-rank replicated chunked) + random scenarios: W in 1..4; 1-2 app_state keys "
        "from an adversarial pool; nested dict/OrderedDict/list (depth <= 3) with keys from the property's list ('..', '.', "
        "'', 'w'+'w_0', 'a/b'+'a%2Fb', '%2E', '%'+'%25', unicode, names of the storage prefixes, int keys); leaves: tensors of "
        "11 dtypes and 12 shapes (0-d, zero-length, 1-3 d), objects, primitives, ShardedTensor (W=1, 1-rank gloo); per-rank "
        "private leaves and rank-only keys; replicated globs (none / '**' / '<key>/**' / exact escaped paths); batching on/off, "
        "slab threshold in {1,9,16,40,128,default}, chunk size in {1,7,8,16,64,default}, shard size in {8,32,default}. "
        "Each scenario: real take into <scratch>/d1/d2/d3/snap under a write guard, manifest + write log + files inspected, "
        "restore into zeroed state and compare. A scenario is non-trivial when it commits and holds at least one stored "
        "(non-primitive) leaf; distinct by spec hash.")
TRUSTED = [
    "Coq 8.16.1 kernel and its vm_compute VM (no native_compute)",
    "hand-written model coq/model/StoragePath.v (os.path.join, get_storage_path, chunk/shard suffix, slab name, POSIX "
    "resolution) tied to the code by differential runs of the real prepare_write / _gather_manifest / os.path on every run",
    "uuid oracle: str(uuid.uuid4()) values are pairwise distinct and are plain path components (36 hex/'-' characters): "
    "a Section-free hypothesis of C05_ranges_disjoint (NoDup / plain uuids), checked on every observed slab name",
    "the OS file system, aiofiles, fnmatch and torch are runtime (modelled, not verified)",
    "reused models: model/Flatten.v (C15), model/Batch.v (C16), model/Partition.v (C06) with their own correspondences",
    "harness/props/C05.py generators, reference flatten / esize table, oracle, canonicalisation; lib/world.py; lib/tocoq.py",
]
ASSUMPTIONS = [
    "no symbolic links below the snapshot root; case-sensitive POSIX file system; path length limits not reached",
    "uuid4 values are pairwise distinct plain components",
    "a ShardedTensor's shards have pairwise distinct offsets across ranks (torch validates shard metadata); sharded leaves "
    "are exercised with W = 1 only (a world-size-1 gloo group)",
    "the replicated globs match leaves whose values are equal on all ranks (otherwise consolidation raises: C06)",
    "locations are judged on the file system plugin; object stores with flat keys are covered by the string-level theorems only",
]

IMPORTS = "From TS Require Import model.Flatten model.StoragePath model.DispatchGenObs.\n"

SIG_CLASH = "C05:location-clash:chunk-suffix-equals-sibling-key"
SIG_EMPTY = "C05:empty-key-component"
SIG_ABS = "C05:empty-app-state-key:absolute-path-escapes-root"
META = ".snapshot_metadata"

ESIZE = {"torch.float32": 4, "torch.float64": 8, "torch.float16": 2, "torch.bfloat16": 2, "torch.int8": 1, "torch.uint8": 1,
         "torch.int16": 2, "torch.int32": 4, "torch.int64": 8, "torch.bool": 1}
DTYPES = ["float32", "float64", "float16", "bfloat16", "int8", "uint8", "int16", "int32", "int64", "bool", "complex64"]
SHAPES = [[], [0], [1], [2], [3], [8], [16], [2, 3], [0, 3], [4, 2], [2, 2, 2], [5, 1]]


# =========================================================================== reference (harness side, independent of /repo)
def ref_encode(s: str) -> str:
    s = s.replace("%", "%25").replace("/", "%2F")
    if s in (".", ".."):
        s = s.replace(".", "%2E")
    return s


def ref_should_flatten(keys) -> bool:
    if not all(isinstance(k, (str, int)) for k in keys):
        return False
    return len({str(k) for k in keys}) == len(keys)


def node_ranks(node):
    return node[-1] if node[0] in ("T", "O", "P") else None


def ref_leaves(node, keys, rank):
    """[(key sequence as strings, leaf node)] in flatten order for `rank`; list indices are their str()"""
    t = node[0]
    if t == "D":
        out = []
        for k, c in node[2]:
            rk = node_ranks(c)
            if rk is not None and rank not in rk:
                continue
            out += ref_leaves(c, keys + [str(k)], rank)
        return out
    if t == "L":
        out = []
        for i, c in enumerate(node[1]):
            out += ref_leaves(c, keys + [str(i)], rank)
        return out
    return [(keys, node)]


def logical_of(keys) -> str:
    return "/".join(ref_encode(k) for k in keys)


def glob_escape(p: str) -> str:
    return "".join("[" + c + "]" if c in "*?[" else c for c in p)


class Plan:
    """what the spec says should be saved: per rank the leaves, which are replicated, the expected manifest paths"""

    def __init__(self, spec):
        self.spec = spec
        self.W = spec["W"]
        self.globs = list(spec["globs"])
        self.leaves = []           # per rank: list of (keys, logical, node)
        for r in range(self.W):
            lv = []
            for appkey, tree in spec["statefuls"]:
                for keys, node in ref_leaves(tree, [appkey], r):
                    lv.append((keys, logical_of(keys), node))
            self.leaves.append(lv)
        present = [set(p for _, p, _ in lv) for lv in self.leaves]
        self.replicated = set()
        for _, p, node in self.leaves[0]:
            if node[0] != "S" and self.matches(p) and all(p in s for s in present):
                self.replicated.add(p)

    def matches(self, p: str) -> bool:
        return any(fnmatch.fnmatch(p, g) for g in self.globs)

    def rank_tag(self, p: str, rank: int):
        return None if self.matches(p) else rank

    def expected_manifest_leaves(self):
        exp = {}
        for r, lv in enumerate(self.leaves):
            for keys, p, node in lv:
                if p in self.replicated:
                    exp[f"0/{p}"] = (0, keys, node)
                else:
                    exp[f"{r}/{p}"] = (r, keys, node)
        return exp


# =========================================================================== values
def seed_of(p: str, tag) -> int:
    return zlib.crc32(f"{p}|{tag}".encode("utf-8", "surrogatepass")) % 89


def numel(shape):
    n = 1
    for s in shape:
        n *= s
    return n


def make_tensor(dtype: str, shape, seed: int, zero: bool):
    import torch
    n = numel(shape)
    base = torch.arange(n, dtype=torch.int64) + seed + 1
    if zero:
        base = torch.zeros(n, dtype=torch.int64)
    dt = getattr(torch, dtype)
    if dtype == "bool":
        t = (base % 3 == 1)
    elif dtype == "complex64":
        t = torch.complex(base.to(torch.float32), (base * 2).to(torch.float32))
    else:
        t = (base % 120).to(dt)
    return t.reshape(shape)


def make_object(kind: int, seed: int, zero: bool):
    if zero:
        return ("zero",)
    k = kind % 4
    if k == 0:
        return ("obj", seed)
    if k == 1:
        return {seed, seed + 1}
    if k == 2:
        return {1: seed, "1": seed + 1}          # str(key) collision: not flattened, saved whole
    return None


def make_primitive(kind: int, seed: int, zero: bool):
    if zero:
        return [0, "", False, 0.0, b""][kind % 5]
    return [seed + 1000, f"s{seed}", seed % 2 == 0, seed + 0.5, bytes([seed, 1])][kind % 5]


def shard_boxes(shape, nsplit):
    """cut dim 0 into nsplit consecutive pieces (sizes >= 1)"""
    d0 = shape[0]
    nsplit = max(1, min(nsplit, d0))
    cuts = [d0 * i // nsplit for i in range(nsplit + 1)]
    boxes = []
    for a, b in zip(cuts, cuts[1:]):
        boxes.append(([a] + [0] * (len(shape) - 1), [b - a] + list(shape[1:])))
    return boxes


def make_sharded(dtype, shape, nsplit, seed, zero):
    from torch.distributed._shard.sharded_tensor import Shard, ShardedTensor, ShardMetadata
    G = make_tensor(dtype, shape, seed, zero)
    shards = []
    for off, sz in shard_boxes(shape, nsplit):
        piece = G[tuple(slice(o, o + s) for o, s in zip(off, sz))].clone().contiguous()
        shards.append(Shard(piece, ShardMetadata(shard_offsets=list(off), shard_sizes=list(sz), placement="rank:0/cpu")))
    return ShardedTensor._init_from_local_shards(shards, tuple(shape))


def leaf_value(node, p: str, tag, zero=False):
    t = node[0]
    sd = seed_of(p, tag)
    if t == "T":
        return make_tensor(node[1], node[2], sd, zero)
    if t == "O":
        return make_object(node[1], sd, zero)
    if t == "P":
        return make_primitive(node[1], sd, zero)
    if t == "S":
        return make_sharded(node[1], node[2], node[3], sd, zero)
    raise ValueError(t)


def build(node, keys, rank, plan: Plan, zero):
    t = node[0]
    if t == "D":
        d = OrderedDict() if node[1] else {}
        for k, c in node[2]:
            rk = node_ranks(c)
            if rk is not None and rank not in rk:
                continue
            d[k] = build(c, keys + [str(k)], rank, plan, zero)
        return d
    if t == "L":
        return [build(c, keys + [str(i)], rank, plan, zero) for i, c in enumerate(node[1])]
    p = logical_of(keys)
    return leaf_value(node, p, plan.rank_tag(p, rank), zero)


class C05State:
    """a Stateful whose state_dict() is exactly `data`; records what load_state_dict received"""

    def __init__(self, data):
        self.data = data
        self.loaded = None

    def state_dict(self):
        return self.data

    def load_state_dict(self, sd):
        self.loaded = sd


def build_app(plan: Plan, rank: int, zero=False):
    return {appkey: C05State(build(tree, [appkey], rank, plan, zero)) for appkey, tree in plan.spec["statefuls"]}


def same_leaf(a, b) -> bool:
    import torch
    from torch.distributed._shard.sharded_tensor import ShardedTensor
    if isinstance(a, ShardedTensor) or isinstance(b, ShardedTensor):
        if not (isinstance(a, ShardedTensor) and isinstance(b, ShardedTensor)):
            return False
        sa = sorted(((tuple(s.metadata.shard_offsets), s.tensor) for s in a.local_shards()), key=lambda x: x[0])
        sb = sorted(((tuple(s.metadata.shard_offsets), s.tensor) for s in b.local_shards()), key=lambda x: x[0])
        return len(sa) == len(sb) and all(x[0] == y[0] and same_leaf(x[1], y[1]) for x, y in zip(sa, sb))
    if isinstance(a, torch.Tensor) or isinstance(b, torch.Tensor):
        if not (isinstance(a, torch.Tensor) and isinstance(b, torch.Tensor)):
            return False
        if a.dtype != b.dtype or a.shape != b.shape:
            return False
        if a.numel() == 0:
            return True
        if a.dtype.is_complex:
            return bool(torch.equal(torch.view_as_real(a), torch.view_as_real(b)))
        return bool(torch.equal(a, b))
    return type(a) is type(b) and a == b


def compare(actual, expected, where, out):
    if isinstance(expected, list):
        if type(actual) is not list or len(actual) != len(expected):
            out.append(f"{where}: list of {len(expected)} became {ascii(actual)[:80]}")
        else:
            for i, (a, e) in enumerate(zip(actual, expected)):
                compare(a, e, f"{where}[{i}]", out)
    elif type(expected) in (dict, OrderedDict):
        if type(actual) is not type(expected) or [(type(k), k) for k in actual] != [(type(k), k) for k in expected]:
            out.append(f"{where}: keys {ascii(list(expected))[:80]} became {ascii(actual)[:80]}")
        else:
            for k in expected:
                compare(actual[k], expected[k], f"{where}[{k!a}]", out)
    elif not same_leaf(actual, expected):
        out.append(f"{where}: expected {ascii(expected)[:70]}, got {ascii(actual)[:70]}")


# =========================================================================== environment
class C05Env:
    VARS = {"batching": "TORCHSNAPSHOT_DISABLE_BATCHING", "chunk": "TORCHSNAPSHOT_MAX_CHUNK_SIZE_BYTES_OVERRIDE",
            "slab": "TORCHSNAPSHOT_SLAB_SIZE_THRESHOLD_BYTES_OVERRIDE", "shard": "TORCHSNAPSHOT_MAX_SHARD_SIZE_BYTES_OVERRIDE"}

    def __init__(self, env):
        self.env = env
        self.saved = {}

    def __enter__(self):
        want = {self.VARS["batching"]: "0" if self.env.get("batching", True) else "1",
                "TORCHSNAPSHOT_PER_RANK_MEMORY_BUDGET_BYTES": str(self.env.get("budget") or 100000000),
                "TORCHSNAPSHOT_MAX_PER_RANK_IO_CONCURRENCY_OVERRIDE": None if not self.env.get("ioc") else str(self.env["ioc"])}
        for k in ("chunk", "slab", "shard"):
            want[self.VARS[k]] = None if self.env.get(k) is None else str(self.env[k])
        for k, v in want.items():
            self.saved[k] = os.environ.get(k)
            if v is None:
                os.environ.pop(k, None)
            else:
                os.environ[k] = v
        return self

    def __exit__(self, *a):
        for k, v in self.saved.items():
            if v is None:
                os.environ.pop(k, None)
            else:
                os.environ[k] = v


class C05Group:
    """world-size-1 gloo group (ShardedTensor needs a process group); created lazily, once per check run"""
    made = False
    dir = None

    @classmethod
    def ensure(cls, ctx: Ctx):
        import torch.distributed as dist
        if not dist.is_initialized():
            cls.dir = ctx.scratch("pg")
            dist.init_process_group("gloo", init_method=f"file://{cls.dir}/rendezvous", rank=0, world_size=1)
            cls.made = True

    @classmethod
    def close(cls):
        import torch.distributed as dist
        if cls.made and dist.is_initialized():
            dist.destroy_process_group()
        cls.made = False
        if cls.dir:
            shutil.rmtree(cls.dir, ignore_errors=True)
            cls.dir = None


def has_sharded(spec) -> bool:
    def go(n):
        if n[0] == "D":
            return any(go(c) for _, c in n[2])
        if n[0] == "L":
            return any(go(c) for c in n[1])
        return n[0] == "S"
    return any(go(t) for _, t in spec["statefuls"])


# =========================================================================== reference resolution (os.path)
def under(root: str, p: str) -> bool:
    return p == root or p.startswith(root + os.sep)


def ref_resolve(root: str, loc: str):
    """components of os.path.join(root, loc) below root after normalisation; None when some prefix of the location
    leaves the root (absolute location, or '..' above the root).  `root` must be normalised and symlink-free."""
    comps = loc.split("/")
    for k in range(1, len(comps) + 1):
        q = os.path.normpath(os.path.join(root, "/".join(comps[:k])))
        if not under(root, q):
            return None
    q = os.path.normpath(os.path.join(root, loc))
    if os.path.realpath(os.path.join(root, loc)) != q:       # the OS agrees with the lexical normalisation
        return "os-disagrees"
    rel = os.path.relpath(q, root)
    return [] if rel == "." else rel.split(os.sep)


# =========================================================================== one scenario
def components_of(p: str):
    return p.split("/")


def cause_of(strings, plan: Plan, claimants) -> str | None:
    """Root cause of a violation that involves the given location / path strings, when it is one of the known ones."""
    appkeys = [k for k, _ in plan.spec["statefuls"]]
    for s in strings:
        if s.startswith("/") and "" in appkeys:
            return SIG_ABS
    for s in strings:
        if s != META and "" in components_of(s):
            return SIG_EMPTY
    for s in strings:
        cl = set(claimants.get(s, []))
        # the same string is the "<path>_<offsets>" piece of one leaf and the own path (or a piece) of another claimant
        if len(cl) >= 2 and any(piece is not None for _, piece in cl):
            return SIG_CLASH
    return None


def expected_claimants(plan: Plan, md):
    """location string -> [(manifest path, piece offsets or None)] computed from the REFERENCE naming rule and the
    chunk / shard offsets recorded in the manifest (the locations themselves may have been relocated into slabs)."""
    cl = {}
    exp = plan.expected_manifest_leaves()
    for mpath, e in md.manifest.items():
        tn = type(e).__name__
        if mpath not in exp or tn in ("ListEntry", "DictEntry", "OrderedDictEntry", "PrimitiveEntry"):
            continue
        r, keys, node = exp[mpath]
        p = logical_of(keys)
        if node[0] == "S":
            prefix = "sharded"
        elif p in plan.replicated:
            prefix = "replicated"
        else:
            prefix = str(r)
        sp = prefix + "/" + p
        if tn == "ChunkedTensorEntry":
            for c in e.chunks:
                cl.setdefault(sp + "_" + "_".join(str(x) for x in c.offsets), []).append((mpath, tuple(c.offsets)))
        elif tn == "ShardedTensorEntry":
            for c in e.shards:
                cl.setdefault(sp + "_" + "_".join(str(x) for x in c.offsets), []).append((mpath, tuple(c.offsets)))
        else:
            cl.setdefault(sp, []).append((mpath, None))
    return cl


def manifest_refs(md):
    """every storage reference of the committed manifest: dicts(mpath, piece, loc, rng, raw, dtype, shape)"""
    refs = []

    def tensor_ref(mpath, piece, te):
        refs.append({"mpath": mpath, "piece": piece, "loc": te.location,
                     "rng": None if te.byte_range is None else tuple(te.byte_range),
                     "raw": te.serializer == "buffer_protocol", "dtype": te.dtype, "shape": list(te.shape)})
    for mpath, e in md.manifest.items():
        tn = type(e).__name__
        if tn == "TensorEntry":
            tensor_ref(mpath, None, e)
        elif tn == "ChunkedTensorEntry":
            for c in e.chunks:
                tensor_ref(mpath, tuple(c.offsets), c.tensor)
        elif tn in ("ShardedTensorEntry", "DTensorEntry"):
            for c in e.shards:
                tensor_ref(mpath, tuple(c.offsets), c.tensor)
        elif tn == "ObjectEntry":
            refs.append({"mpath": mpath, "piece": None, "loc": e.location, "rng": None, "raw": False, "dtype": None, "shape": None})
    return refs


class Outcome:
    def __init__(self):
        self.failures = []        # (signature, what)
        self.committed = False
        self.take_error = None
        self.stored_leaves = 0
        self.loc_cases = []       # ((sh, rp, rank, keys, offs), location)
        self.mpath_cases = []     # ((rank, logical), manifest path)
        self.resolve_cases = []   # (location, components | None)
        self.overlap_cases = []   # ([(loc, rng)], [(i, j)])
        self.slab_names = []
        self.flatten_diff = []
        self.notes = []


def real_locations(plan: Plan, out: Outcome):
    """real flatten + real prepare_write on every rank's state (no I/O): the locations the code computes"""
    from torchsnapshot.flatten import flatten
    from torchsnapshot.io_preparer import prepare_write
    for r in range(plan.W):
        app = build_app(plan, r)
        mine = {p: (keys, node) for keys, p, node in plan.leaves[r]}
        seen = set()
        for appkey, st in app.items():
            _, flat = flatten(st.state_dict(), prefix=appkey)
            for lp, obj in flat.items():
                seen.add(lp)
                if lp not in mine:
                    out.flatten_diff.append(f"rank {r}: flatten produced path {lp!a} that the reference does not")
                    continue
                keys, node = mine[lp]
                rep = lp in plan.replicated
                entry, wrs = prepare_write(obj=obj, logical_path=lp, rank=r, replicated=rep)
                tn = type(entry).__name__
                sh = node[0] == "S"
                if tn in ("TensorEntry", "ObjectEntry"):
                    out.loc_cases.append(((sh, rep, r, keys, None), entry.location))
                elif tn == "ChunkedTensorEntry":
                    for c in entry.chunks:
                        out.loc_cases.append(((sh, rep, r, keys, list(c.offsets)), c.tensor.location))
                elif tn == "ShardedTensorEntry":
                    for c in entry.shards:
                        out.loc_cases.append(((sh, rep, r, keys, list(c.offsets)), c.tensor.location))
        for p in mine:
            if p not in seen:
                out.flatten_diff.append(f"rank {r}: flatten lost the reference leaf path {p!a}")


def run_scenario(ctx: Ctx, spec, with_model=True) -> Outcome:
    import torch  # noqa
    from lib.world import World
    from torchsnapshot import Snapshot

    out = Outcome()
    if has_sharded(spec):
        if spec["W"] != 1:
            raise ValueError("sharded leaves need W = 1")
        C05Group.ensure(ctx)
    plan = Plan(spec)
    base = ctx.scratch("c05")
    root = os.path.join(os.path.realpath(base), "d1", "d2", "d3", "snap")
    os.makedirs(root)
    escapes = []

    def guard(rank, path, nth):
        rp = os.path.realpath(os.path.join(root, path))
        if not under(root, rp):
            escapes.append((rank, path, rp))
            return "fail"                      # the write is refused: nothing is ever written outside the scratch dir
        return None

    try:
        with C05Env(spec["env"]):
            if with_model:
                try:
                    real_locations(plan, out)
                except Exception as e:  # noqa
                    out.notes.append(f"prepare_write raised {type(e).__name__}: {e}"[:200])
            globs = list(spec["globs"])

            def take(r):
                # a rank other than 0 may pass a path of its own: rank 0's is the one that counts
                mine = root if (r == 0 or not spec.get("diverge")) else os.path.join(os.path.realpath(base), f"path_given_by_rank{r}", "snap")
                if spec.get("api") == "async_take":
                    Snapshot.async_take(path=mine, app_state=build_app(plan, r), replicated=globs).wait()
                else:
                    Snapshot.take(path=mine, app_state=build_app(plan, r), replicated=globs)
                return True
            w = World(spec["W"], write_policy=guard)
            _, errs = w.run(take)
            # ---- confinement: evaluated on the path the plugin WOULD have written
            for rank, path, rp in escapes:
                cause = cause_of([path], plan, {})
                if cause is None and ".." in components_of(path):
                    cause = "C05:write-outside-root:dotdot-component"
                out.failures.append((cause or "C05:write-outside-root",
                                     f"rank {rank} issued a write to {path!a}, which os.path.join(root, .) resolves to {rp!a}, outside the snapshot root"))
            if any(e is not None for e in errs) or w.deadlock:
                out.take_error = "; ".join(f"r{i}:{type(e).__name__}" for i, e in enumerate(errs) if e is not None) or "deadlock"
                return out
            try:
                md = Snapshot(root).metadata
            except Exception as e:  # noqa
                out.failures.append(("C05:take-returned-without-readable-metadata", f"{type(e).__name__}: {e}"[:200]))
                return out
            out.committed = True
            analyse(plan, root, w, md, out)
            if not out.failures:
                restore_check(plan, root, out)
    finally:
        shutil.rmtree(base, ignore_errors=True)
    return out


def analyse(plan: Plan, root: str, world, md, out: Outcome):
    claimants = expected_claimants(plan, md)
    refs = manifest_refs(md)
    out.stored_leaves = len({r["mpath"] for r in refs})

    def real(loc):
        return os.path.realpath(os.path.join(root, loc))

    writes = [e for e in world.events if e["kind"] == "write_begin"]
    for e in writes:
        # the storage plugin that performed the write must be rooted at the snapshot's path (rank 0's)
        if os.path.realpath(e.get("root", root)) != os.path.realpath(root):
            out.failures.append(("C05:write-outside-root:plugin-rooted-elsewhere",
                                 f"rank {e['rank']} wrote {e['path']!a} through a storage plugin rooted at {e.get('root')!a}, not at the snapshot path {root!a}"))
            break
    spellings = {}                     # file -> every string under which a write or a manifest entry names it
    for s in [e["path"] for e in writes] + [r["loc"] for r in refs]:
        spellings.setdefault(real(s), set()).add(s)

    def fail(kind, strings, what):
        involved = set(strings)
        for s in strings:
            involved |= spellings.get(real(s), set())
        out.failures.append((cause_of(sorted(involved), plan, claimants) or kind, what))

    # ---- written once, by one rank; inside the root ----------------------------------------------------------------
    by_file = {}
    for e in writes:
        by_file.setdefault(real(e["path"]), []).append(e)
        if not under(root, real(e["path"])):
            fail("C05:write-outside-root", [e["path"]], f"write to {e['path']!a} landed outside the root")
    for f, es in sorted(by_file.items()):
        if len(es) > 1:
            names = sorted({e["path"] for e in es})
            ranks = sorted({e["rank"] for e in es})
            kind = "C05:location-written-by-several-ranks" if len(ranks) > 1 else "C05:location-written-more-than-once"
            if len(names) > 1 and any(c in (".", "..") for n in names for c in components_of(n)):
                kind = "C05:location-alias:dot-component"
            fail(kind, names, f"file {os.path.relpath(f, root)!a} was written {len(es)} times (paths {names!a}, ranks {ranks}, sizes {[e['size'] for e in es]})")

    # ---- exists / fits ---------------------------------------------------------------------------------------------
    for r in refs:
        f = os.path.join(root, r["loc"])
        who = f"{r['mpath']!a}" + (f" piece {list(r['piece'])}" if r["piece"] is not None else "")
        if real(r["loc"]) not in by_file or not os.path.isfile(f):
            fail("C05:location-missing", [r["loc"]], f"{who} references location {r['loc']!a}, which was never written / is not a file")
            continue
        if not under(root, real(r["loc"])):
            fail("C05:location-outside-root", [r["loc"]], f"{who} references {r['loc']!a} outside the root")
        size = os.path.getsize(f)
        if r["rng"] is not None:
            lo, hi = r["rng"]
            if not (0 <= lo <= hi <= size):
                fail("C05:byte-range-outside-object", [r["loc"]], f"{who}: byte_range {[lo, hi]} does not fit the {size}-byte object {r['loc']!a}")
                continue
        if r["raw"]:
            want = ESIZE[r["dtype"]] * numel(r["shape"])
            got = size if r["rng"] is None else r["rng"][1] - r["rng"][0]
            if got != want:
                fail("C05:raw-size-mismatch", [r["loc"]],
                     f"{who}: {r['dtype']}{r['shape']} needs {want} bytes but the referenced {'object' if r['rng'] is None else 'range'} has {got} ({r['loc']!a})")
    # ---- disjoint --------------------------------------------------------------------------------------------------
    pairs = []
    for i in range(len(refs)):
        for j in range(i + 1, len(refs)):
            a, b = refs[i], refs[j]
            if real(a["loc"]) != real(b["loc"]):
                continue
            if a["rng"] is None or b["rng"] is None or max(a["rng"][0], b["rng"][0]) < min(a["rng"][1], b["rng"][1]):
                pairs.append((i, j))
                fail("C05:ranges-overlap", [a["loc"], b["loc"]],
                     f"{a['mpath']!a}{'' if a['piece'] is None else list(a['piece'])} ({a['loc']!a} {a['rng']}) and "
                     f"{b['mpath']!a}{'' if b['piece'] is None else list(b['piece'])} ({b['loc']!a} {b['rng']}) share bytes")
    if len(refs) <= 40:
        out.overlap_cases.append(([(r["loc"], r["rng"]) for r in refs], pairs))
    # ---- the manifest lists every leaf exactly once ----------------------------------------------------------------
    exp = plan.expected_manifest_leaves()
    got = {p for p, e in md.manifest.items() if type(e).__name__ not in ("ListEntry", "DictEntry", "OrderedDictEntry")}
    for p in sorted(set(exp) - got):
        fail("C05:manifest-leaf-missing", [p], f"leaf {p!a} of the application state is not in the manifest")
    for p in sorted(got - set(exp)):
        fail("C05:manifest-leaf-unexpected", [p], f"manifest lists {p!a}, which is no leaf of any rank's state (or a replicated leaf listed again)")
    # ---- material for the model ------------------------------------------------------------------------------------
    for p in md.manifest:
        if p in exp:
            r, keys, node = exp[p]
            out.mpath_cases.append(((r, logical_of(keys)), p))
    for s in sorted({r["loc"] for r in refs} | {e["path"] for e in writes}):
        out.resolve_cases.append(s)
    out.slab_names = sorted({r["loc"] for r in refs if r["loc"].startswith("batched/")})


def restore_check(plan: Plan, root: str, out: Outcome):
    from lib.world import World
    from torchsnapshot import Snapshot

    def restore(r):
        app = build_app(plan, r, zero=True)
        Snapshot(root).restore(app)
        return {k: v.loaded for k, v in app.items()}
    w = World(plan.W)
    res, errs = w.run(restore)
    for r in range(plan.W):
        if errs[r] is not None:
            out.failures.append(("C05:restore-raises", f"restore on rank {r} raised {type(errs[r]).__name__}: {errs[r]}"[:300]))
            continue
        want = build_app(plan, r)
        diffs = []
        for k in want:
            if res[r][k] is None:
                diffs.append(f"{k!a}: load_state_dict was not called")
            else:
                compare(res[r][k], want[k].data, f"rank{r}:{k!a}", diffs)
        for d in diffs[:3]:
            out.failures.append(("C05:restore-differs-from-saved", d))


# =========================================================================== generators
APP_KEYS = ["m", "opt", "a/b", "0", "1", "ü", "x%y", ".", "..", "replicated", "batched", "sharded", "w", "w_0", "%2E", "日本"]
PLAIN_KEYS = ["a", "b", "c", "w", "x", "k", "layer.0.weight", "bias", "n"]
ADV_KEYS = ["", "..", ".", "...", "%2E", "%2E%2E", "%", "%25", "a/b", "a%2Fb", "a%252Fb", "/", "//", "a/", "/a", "a.b", "é", "日本", "😀",
            " ", "a b", "x_", "_", "_0", "0_0", "w_0", "w_4", "w_1", "w_0_0", "w_2_0", "batched", "replicated", "sharded",
            "replicated_sharded", ".snapshot_metadata", "0", "1", "-1", "True", "A" * 40, "%2F", "%%", "..%2F..", "~", "$HOME", "\\", "a\nb"]
INT_KEYS = [0, 1, 2, -1, 10]


def gen_leaf(rng, W, allow_sharded):
    r = rng.random()
    ranks = None
    if W > 1 and rng.random() < 0.12:
        ranks = sorted(rng.sample(range(W), rng.randint(1, W - 1)))
    if r < 0.62:
        return ["T", rng.choice(DTYPES), list(rng.choice(SHAPES)), ranks]
    if r < 0.74:
        return ["O", rng.randrange(4), ranks]
    if r < 0.92 or not allow_sharded:
        return ["P", rng.randrange(5), ranks]
    shape = list(rng.choice([[4], [6], [3, 2], [4, 3], [2, 2, 2]]))
    return ["S", rng.choice(["float32", "int64", "uint8", "bfloat16"]), shape, rng.randint(1, 3)]


def gen_keys(rng, n, adversarial):
    keys = []
    pool = (ADV_KEYS if adversarial else PLAIN_KEYS)
    while len(keys) < n:
        k = rng.choice(INT_KEYS) if rng.random() < 0.1 else rng.choice(pool if rng.random() < 0.7 else PLAIN_KEYS)
        if str(k) not in {str(x) for x in keys}:
            keys.append(k)
    return keys


def gen_tree(rng, depth, W, allow_sharded, adversarial):
    n = rng.randint(1, 4)
    items = []
    for k in gen_keys(rng, n, adversarial):
        r = rng.random()
        if depth > 0 and r < 0.25:
            items.append([k, gen_tree(rng, depth - 1, W, allow_sharded, adversarial)])
        elif depth > 0 and r < 0.35:
            items.append([k, ["L", [gen_leaf(rng, W, False) if rng.random() < 0.8 else gen_tree(rng, depth - 1, W, False, adversarial)
                                    for _ in range(rng.randint(0, 3))]]])
        else:
            items.append([k, gen_leaf(rng, W, allow_sharded)])
    # list items must exist on every rank (positions are keys): drop rank restrictions inside lists
    return ["D", rng.random() < 0.3, items]


def strip_list_ranks(node, inlist=False):
    if node[0] == "D":
        for kv in node[2]:
            strip_list_ranks(kv[1], inlist)
    elif node[0] == "L":
        for c in node[1]:
            strip_list_ranks(c, True)
    elif inlist and node[0] in ("T", "O", "P"):
        node[-1] = None


def add_group(rng, tree, env):
    """plant one of the property's adversarial constellations next to the random keys"""
    items = tree[2]
    have = {str(k) for k, _ in items}

    def put(k, node):
        if str(k) not in have:
            items.append([k, node])
            have.add(str(k))
    g = rng.randrange(7)
    small = ["T", "int32", [2], None]
    if g == 0:      # escaping pairs
        put("a/b", small), put("a%2Fb", ["T", "int64", [1], None]), put("a", ["D", False, [["b", ["P", 0, None]]]])
    elif g == 1:
        put(".", small), put("%2E", ["T", "uint8", [3], None]), put("..", ["D", False, [["..", ["D", False, [["..", ["D", False, [["x", small]]]]]]]]])
    elif g == 2:
        put("%", small), put("%25", ["O", 0, None]), put("%2525", ["P", 1, None])
    elif g == 3:    # names of the storage prefixes / slab dir / metadata
        put("batched", small), put("replicated", ["O", 1, None]), put(".snapshot_metadata", small), put("sharded", ["P", 2, None])
    elif g == 4:    # chunked tensor next to suffix-like names that do NOT clash
        put("w", ["T", "int32", [8], None]), put("w_", small), put("w_x", small), put("w0", small)
    elif g == 5:
        put("..", small), put("...", small), put(".", ["D", False, [["x", small]]]), put("x", ["T", "int8", [4], None])
    else:
        put("é", small), put("日本", ["O", 0, None]), put("😀", ["P", 1, None]), put(" ", small)
    return tree


def gen_env(rng):
    return {"batching": rng.random() < 0.6,
            "chunk": rng.choice([None, None, 1, 7, 8, 16, 64]),
            "slab": rng.choice([None, None, 1, 9, 16, 40, 128]),
            "shard": rng.choice([None, 8, 32]),
            # a tight per-rank memory budget: staging overlaps I/O, requests wait for budget (None = ample)
            "budget": rng.choice([None, None, 1, 16, 64]), "ioc": rng.choice([None, None, 1, 2])}


def gen_spec(rng):
    W = rng.choice([1, 1, 2, 2, 3, 4])
    adversarial = rng.random() < 0.75
    allow_sharded = W == 1 and rng.random() < 0.5
    nst = rng.choice([1, 1, 2])
    appkeys = []
    while len(appkeys) < nst:
        k = rng.choice(APP_KEYS if adversarial and rng.random() < 0.6 else ["m", "opt", "model"])
        if k not in appkeys:
            appkeys.append(k)
    statefuls = []
    for k in appkeys:
        t = gen_tree(rng, rng.randint(0, 3), W, allow_sharded, adversarial)
        if adversarial and rng.random() < 0.5:
            add_group(rng, t, None)
        strip_list_ranks(t)
        statefuls.append([k, t])
    spec = {"W": W, "env": gen_env(rng), "globs": [], "statefuls": statefuls}
    # never plant the three known findings in the random stream more than occasionally (they have corpus entries)
    g = rng.random()
    plan = Plan(spec)
    if g < 0.25:
        spec["globs"] = ["**"]
    elif g < 0.45:
        spec["globs"] = [glob_escape(ref_encode(appkeys[0])) + "/**"]
    elif g < 0.7:
        cands = sorted({p for _, p, n in plan.leaves[0] if n[0] != "S"})
        spec["globs"] = [glob_escape(p) for p in rng.sample(cands, min(len(cands), rng.randint(1, 3)))]
    # which API, and whether ranks > 0 pass a path of their own (legal: "the value specified by rank 0 will be used")
    spec["api"] = rng.choice(["take", "take", "async_take"])
    spec["diverge"] = W > 1 and rng.random() < 0.5
    return spec


def spec_has_known_trigger(spec) -> bool:
    def keys_of(n, acc):
        if n[0] == "D":
            for k, c in n[2]:
                acc.append(str(k))
                keys_of(c, acc)
        elif n[0] == "L":
            for c in n[1]:
                keys_of(c, acc)
    acc = [k for k, _ in spec["statefuls"]]
    for _, t in spec["statefuls"]:
        keys_of(t, acc)
    return "" in acc


def T(dtype, shape, ranks=None):
    return ["T", dtype, shape, ranks]


def D(*items, ordered=False):
    return ["D", ordered, [list(i) for i in items]]


def env(batching=True, chunk=None, slab=None, shard=None):
    return {"batching": batching, "chunk": chunk, "slab": slab, "shard": shard}


def corpus():
    """(name, spec, expected signature or None)"""
    c = []
    clash = D(("w", T("int32", [8])), ("w_0", T("int32", [2])))
    c.append(("clash-unbatched", {"W": 1, "env": env(False, 16), "globs": [], "statefuls": [["m", clash]]}, SIG_CLASH))
    c.append(("clash-batched", {"W": 1, "env": env(True, 16), "globs": [], "statefuls": [["m", clash]]}, SIG_CLASH))
    clash_rev = D(("w_0", T("int32", [2])), ("w", T("int32", [8])))
    c.append(("clash-batched-reversed", {"W": 1, "env": env(True, 16), "globs": [], "statefuls": [["m", clash_rev]]}, SIG_CLASH))
    clash2d = D(("w", T("float32", [4, 2])), ("w_2_0", ["O", 0, None]))
    c.append(("clash-2d-object", {"W": 1, "env": env(False, 16), "globs": [], "statefuls": [["m", clash2d]]}, SIG_CLASH))
    c.append(("clash-replicated-W2", {"W": 2, "env": env(False, 16), "globs": ["**"], "statefuls": [["m", clash]]}, SIG_CLASH))
    clash_two_chunked = D(("w", T("int32", [4, 2])), ("w_2", T("int32", [8])))      # "w"+"_2_0" == "w_2"+"_0"
    c.append(("clash-two-chunked", {"W": 1, "env": env(False, 16), "globs": [], "statefuls": [["m", clash_two_chunked]]}, SIG_CLASH))
    sh = D(("s", ["S", "int32", [4, 2], 2]), ("s_2", ["S", "int32", [4], 1]))        # "s"+"_2_0" == "s_2"+"_0"
    c.append(("clash-sharded", {"W": 1, "env": env(False), "globs": [], "statefuls": [["m", sh]]}, SIG_CLASH))
    empty_mid = D(("", D(("x", T("int32", [2])))), ("x", T("int32", [1])))
    c.append(("empty-intermediate-unbatched", {"W": 1, "env": env(False), "globs": [], "statefuls": [["m", empty_mid]]}, SIG_EMPTY))
    empty_obj = D(("", D(("x", ["O", 0, None]))), ("x", ["O", 1, None]))
    c.append(("empty-intermediate-objects-batched", {"W": 1, "env": env(True), "globs": [], "statefuls": [["m", empty_obj]]}, SIG_EMPTY))
    c.append(("empty-app-key", {"W": 1, "env": env(False), "globs": [], "statefuls": [["", D(("x", T("int32", [2])))]]}, SIG_ABS))
    c.append(("empty-app-key-replicated-W2", {"W": 2, "env": env(True), "globs": ["**"], "statefuls": [["", D(("x", ["O", 0, None]))]]}, SIG_ABS))
    # expected to hold -------------------------------------------------------------------------------------------
    c.append(("empty-intermediate-batched-small", {"W": 1, "env": env(True), "globs": [], "statefuls": [["m", empty_mid]]}, None))
    c.append(("empty-leaf-batched", {"W": 1, "env": env(True), "globs": [], "statefuls": [["m", D(("", T("int32", [2])), ("a", T("int32", [1])))]]}, None))
    c.append(("empty-leaf-unbatched-uncommitted", {"W": 1, "env": env(False), "globs": [], "statefuls": [["m", D(("", T("int32", [2])), ("a", T("int32", [1])))]]}, None))
    legacy = D(("..", D(("..", D(("..", D(("x", T("int32", [2])))))))), ("x", T("int32", [1])))
    c.append(("legacy-dotdot-escape", {"W": 1, "env": env(False), "globs": [], "statefuls": [["m", legacy]]}, None))
    dots = D((".", D(("x", T("int32", [2])))), ("x", T("int32", [1])), ("..", T("int8", [3])), ("%2E", T("int8", [2])), ("%2E%2E", ["O", 0, None]))
    c.append(("dot-aliases", {"W": 2, "env": env(False), "globs": [], "statefuls": [["m", dots], ["..", D(("..", T("int32", [2])))], [".", D((".", ["O", 1, None]))]]}, None))
    esc = D(("a/b", T("int32", [2])), ("a%2Fb", T("int32", [1])), ("a", D(("b", T("int64", [1])))), ("%", ["O", 0, None]), ("%25", ["O", 1, None]),
            ("a%252Fb", ["P", 1, None]))
    c.append(("escaping-pairs", {"W": 2, "env": env(False), "globs": ["m/a[%]2Fb"], "statefuls": [["m", esc], ["a/b", D(("c", T("int32", [2])))], ["a%2Fb", D(("c", T("int32", [3])))]]}, None))
    prefixes = D(("x", T("int32", [2])), ("batched", T("int32", [2])))
    c.append(("prefix-names", {"W": 3, "env": env(True, None, 9), "globs": ["replicated/**"],
                               "statefuls": [["replicated", prefixes], ["batched", prefixes], ["0", prefixes], ["1", prefixes], ["sharded", D(("y", ["O", 0, None]))]]}, None))
    near = D(("w", T("int32", [8])), ("w_", T("int32", [2])), ("w_x", T("int32", [2])), ("w_1", T("int32", [2])), ("w_8", T("int32", [2])), ("w_0x", T("int32", [1])))
    c.append(("near-clash-no-clash", {"W": 1, "env": env(False, 16), "globs": [], "statefuls": [["m", near]]}, None))
    rep = D(("big", T("float32", [16])), ("small", T("int8", [3])), ("obj", ["O", 1, None]), ("n", ["P", 0, None]), ("z", T("float64", [0, 3])),
            ("priv", T("int32", [4], None)), ("only0", T("int16", [2], [0])))
    c.append(("replicated-chunked-W3", {"W": 3, "env": env(True, 16, 40), "globs": ["m/big", "m/small", "m/obj", "m/n", "m/z"], "statefuls": [["m", rep]]}, None))
    c.append(("replicated-chunked-W4-unbatched", {"W": 4, "env": env(False, 8), "globs": ["**"], "statefuls": [["m", D(("big", T("float32", [16])), ("l", ["L", [T("int8", [3]), ["O", 0, None]]]))]]}, None))
    zeros = D(("z0", T("float32", [0])), ("z1", T("int64", [0, 3])), ("z2", T("bfloat16", [0])), ("s", T("float32", [])), ("b", T("bfloat16", [3])))
    c.append(("zero-length-slab-1", {"W": 1, "env": env(True, None, 1), "globs": [], "statefuls": [["m", zeros]]}, None))
    c.append(("zero-length-unbatched", {"W": 2, "env": env(False), "globs": [], "statefuls": [["m", zeros]]}, None))
    many = D(*[(f"t{i}", T("uint8", [5])) for i in range(7)])
    c.append(("many-slabs", {"W": 2, "env": env(True, None, 9), "globs": [], "statefuls": [["m", many]]}, None))
    shd = D(("s", ["S", "float32", [4, 3], 2]), ("t", T("float32", [2])), ("s_x", T("int8", [1])))
    c.append(("sharded-ok", {"W": 1, "env": env(True, None, None, 8), "globs": ["**"], "statefuls": [["m", shd]]}, None))
    return c


# =========================================================================== correspondence with the model
def run_model(res: Result, outs):
    loc, mp, rs, ov = [], [], [], []
    for o in outs:
        for (sh, rp, rank, keys, offs), location in o.loc_cases:
            t = f"({term(sh)}, {term(rp)}, {term(rank)}, {term(list(keys))}, {term(None if offs is None else Some(list(offs)))})"
            loc.append((t, val(location), ((sh, rp, rank, keys, offs), location)))
        for (rank, logical), p in o.mpath_cases:
            mp.append((f"({term(rank)}, {term(logical)})", val(p), ((rank, logical), p)))
        for refs, pairs in o.overlap_cases:
            t = "[" + "; ".join(f"({term(l)}, {'None' if r is None else '(Some (' + term(r[0]) + ', ' + term(r[1]) + '))'})" for l, r in refs) + "]"
            ov.append((t, val([[i, j] for i, j in pairs]), (refs, pairs)))
    seen = set()
    root = "/c05-model-root/x"
    for o in outs:
        for s in o.resolve_cases:
            if s in seen:
                continue
            seen.add(s)
            r = ref_resolve(root, s)
            if r == "os-disagrees":
                continue
            rs.append((term(s), val(None if r is None else [r]), (s, r)))
    for name, fn, cases, in_type in (
            ("location:prepare_write~model", "obs_location_keys_gen", loc, "bool * bool * Z * list pystr * option (list Z)"),
            ("manifest-path:_gather_manifest~model", "obs_manifest_path_gen", mp, "Z * pystr"),
            ("resolve:os.path~model", "obs_resolve", rs, "pystr"),
            ("overlap:manifest-references~model", "obs_overlaps", ov, "list ref")):
        if not cases:
            continue
        uniq, seen2 = [], set()
        for c in cases:
            if c[0] + "|" + c[1] not in seen2:
                seen2.add(c[0] + "|" + c[1])
                uniq.append(c)
        bad, errs = coqrun.run_cases("C05_" + fn, IMPORTS, fn, [(a, b) for a, b, _ in uniq], shard=300, in_type=in_type)
        for e in errs:
            res.mismatches.append(Mismatch(name, "coqc error", None, e))
        for i in bad:
            res.mismatches.append(Mismatch(name, ascii(uniq[i][2][0])[:600], ascii(uniq[i][2][1])[:300], None))
        res.traces_validated += len(uniq)
        res.count("model.cases", name.split(":")[0] + f"={len(uniq)}")


def resolve_stream(ctx: Ctx):
    """generated relative / absolute location strings with '', '.', '..' for the resolve correspondence"""
    rng = ctx.rng
    comps = ["", ".", "..", "a", "b", "0", "m", "...", "..a", "a..", ". ", "%2E", "x_0", "batched"]
    out = {"", "/", "//", ".", "..", "a/..", "a/../..", "../a", "a/./b", "a//b", "a/", "/a", "a/b/../../..", "a/b/../../../snap/x", "./..", "a/.."}
    for _ in range(ctx.n(400, 3000)):
        n = rng.randint(1, 6)
        out.add("/".join(rng.choice(comps) for _ in range(n)))
    return sorted(out)


def record(res: Result, name, spec, o: Outcome, expected=None):
    plan_keys = {"W": spec["W"], "env": spec["env"], "globs": spec["globs"], "statefuls": spec["statefuls"]}
    res.case({"scenario": name, "spec": plan_keys}, nontrivial=o.committed and o.stored_leaves > 0)
    res.count("scenario.W", spec["W"])
    res.count("scenario.batching", spec["env"]["batching"])
    res.count("scenario.chunk", spec["env"]["chunk"])
    res.count("scenario.slab", spec["env"]["slab"])
    res.count("scenario.globs", "none" if not spec["globs"] else ("**" if spec["globs"] == ["**"] else "some"))
    res.count("scenario.outcome", "committed" if o.committed else f"uncommitted:{o.take_error}")
    res.count("scenario.stored_leaves", min(o.stored_leaves, 20))
    res.count("scenario.slabs", min(len(o.slab_names), 6))
    for sig, what in o.failures:
        res.failures.append(Failure(sig, f"[{name}] {what}", {"name": name, "spec": spec, "signature": sig}))
    for d in o.flatten_diff[:3]:
        res.failures.append(Failure("C05:flatten-paths-differ-from-reference", f"[{name}] {d}", {"name": name, "spec": spec,
                                                                                               "signature": "C05:flatten-paths-differ-from-reference"}))
    for n in o.slab_names:
        u = n[len("batched/"):]
        if not (len(u) == 36 and all(ch in "0123456789abcdef-" for ch in u)):
            res.failures.append(Failure("C05:slab-name-not-a-uuid", f"[{name}] slab location {n!a}", {"name": name, "spec": spec,
                                                                                                    "signature": "C05:slab-name-not-a-uuid"}))


def correspond(ctx: Ctx) -> Result:
    res = Result(rule=RULE)
    outs = []
    try:
        for name, spec, expected in corpus():
            o = run_scenario(ctx, spec)
            outs.append(o)
            record(res, "corpus:" + name, spec, o)
            sigs = {s for s, _ in o.failures}
            if expected is not None and expected not in sigs:
                res.notes.append(f"corpus scenario {name}: the known finding {expected} did NOT reproduce (fixed?)")
            res.count("corpus", f"{name}:{'+'.join(sorted(sigs)) or ('ok' if o.committed else 'uncommitted')}")
        n = ctx.n(90, 1000)
        for i in range(n):
            spec = gen_spec(ctx.rng)
            if spec_has_known_trigger(spec) and ctx.rng.random() < 0.7:
                continue
            o = run_scenario(ctx, spec)
            outs.append(o)
            record(res, f"random:{i}", spec, o)
        extra = Outcome()
        extra.resolve_cases = resolve_stream(ctx)
        outs.append(extra)
        run_model(res, outs)
    finally:
        C05Group.close()
    return res


def replay(ctx: Ctx, data):
    try:
        o = run_scenario(ctx, data["spec"], with_model=False)
    finally:
        C05Group.close()
    want = data.get("signature")
    for sig, what in o.failures:
        if want is None or sig == want:
            return Failure(sig, what, data)
    for sig, what in o.failures:                    # a different violation, unless it is one of the recorded findings
        if sig not in (SIG_CLASH, SIG_EMPTY, SIG_ABS):
            return Failure(sig, what, data)
    return None


MANIFEST = {
    "level_text": ("Machine-checked proof (Coq 8.16.1) over an executable model of torchsnapshot's storage naming "
                   "(get_storage_path, chunk/shard suffix, slab names, global manifest paths, os.path.join + POSIX resolution): "
                   "every location of every leaf that flatten can produce stays inside the snapshot root and, without empty "
                   "key components, denotes itself; distinct saved objects get distinct files unless a key equals another "
                   "key plus an offsets suffix; slab members occupy disjoint consecutive ranges whose lengths are esize*prod(shape); "
                   "global manifest paths are pairwise distinct with replicated leaves once under rank 0. The forced hypotheses "
                   "(non-empty app key, no empty component, no suffix clash) each have a machine-checked counterexample, replayed on "
                   "the real code on every run (three known findings). The model is tied to the code on every run by real "
                   "Snapshot.take / restore in a simulated multi-rank world with a direct oracle over manifest, files and write log."),
    "level_note": ("Trusted: Coq kernel + VM; hand-written model and the differential harness; uuid4 distinctness (hypothesis); "
                   "OS file system / aiofiles / fnmatch / torch are runtime. Theorems closed under the global context."),
    "technique": "Coq proof (string/list lemmas, reuse of C15/C16/C06 theorems) + vm_compute correspondence + direct oracle on real takes",
    "design_ref": "DESIGN.md section 5, C05",
}
