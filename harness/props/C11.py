"""C11 - Pipelines always finish and perform every request exactly once."""
from __future__ import annotations

import itertools

from lib import coqrun
from lib.core import Ctx, Failure, Mismatch, Result
from lib.tocoq import val
from props import sched_common as sc
from props.C10 import IMPORTS, RTYPE, WTYPE, gen_reqs

PROP = "C11"
PROPS_FILE = "props/C11.v"
GEN = ["gen_sched"]
CORRESPONDENCES = ["write-pipeline:trace~model(with failures)", "read-pipeline:trace~model(with failures)"]
RULE = ("gated executions of the real save and load pipelines under a watchdog: request multisets (costs below/equal/"
        "above the budget, zero), budgets >= 1, concurrency >= 1, completion orders from pick lists (thorough: all "
        "orders for <= 3 requests over a cost lattice), and a single injected failure at every operation index. "
        "Non-trivial = at least two requests; distinct by (requests,B,K,completion sequence,failure index).")
TRUSTED = [
    "Coq 8.16.1 kernel and vm_compute; theorems closed under the global context",
    "translator/gen_sched.py; event-loop abstraction of coq/model/Sched.v; gated-asyncio harness (sched_common.py)",
]
ASSUMPTIONS = [
    "fairness of the environment: a started staging / storage / consume operation eventually completes or fails",
    "K >= 1 and budget >= 1 as the property states; process-group and executor shutdown are outside the model",
]


def oracle(kind, reqs, B, K, run, fail_at, res, replay):
    n = len(reqs)
    first, second = ("stage", "write") if kind == "write" else ("read", "consume")
    begins = {first: {}, second: {}}
    for t, k, i in run.log:
        if t == "begin":
            begins[k][i] = begins[k].get(i, 0) + 1
    dup = [(k, i) for k in begins for i, c in begins[k].items() if c > 1]
    if dup:
        res.failures.append(Failure(f"C11:{kind}:operation-performed-twice", f"{kind} pipeline issued {dup} more than once reqs={reqs} B={B} K={K}", replay))
    if fail_at is None or fail_at >= len(run.steps) or not any(s["fail"] for s in run.steps):
        if run.outcome == "hang":
            res.failures.append(Failure(f"C11:{kind}:hang", f"{kind} pipeline hung (no operation in flight, not finished) reqs={reqs} B={B} K={K}", replay))
        elif run.outcome != "ok":
            res.failures.append(Failure(f"C11:{kind}:raised-without-failure", f"{kind} pipeline raised {run.outcome} although no operation failed reqs={reqs} B={B} K={K}", replay))
        else:
            missing = [(k, i) for k in (first, second) for i in range(n) if begins[k].get(i, 0) != 1]
            if missing:
                res.failures.append(Failure(f"C11:{kind}:request-not-performed", f"{kind} pipeline reported success but {missing} not performed exactly once reqs={reqs} B={B} K={K}", replay))
    else:
        if run.outcome == "ok":
            res.failures.append(Failure(f"C11:{kind}:success-after-failed-operation", f"{kind} pipeline reported success although an operation failed reqs={reqs} B={B} K={K}", replay))
        elif run.outcome == "hang":
            res.failures.append(Failure(f"C11:{kind}:hang-after-failed-operation", f"{kind} pipeline hung after a failed operation reqs={reqs} B={B} K={K}", replay))


def cases(ctx: Ctx):
    rng = ctx.rng
    out = [([(6, 6), (5, 5), (12, 12)], 10, 2, [1, 0, 2, 0, 1], None), ([(4, 4)] * 3, 8, 1, [0], None),
           ([(0, 0), (0, 0), (3, 3)], 1, 1, [2, 0, 1], None), ([(1, 1)] * 5, 1, 1, [0], None),
           ([(9, 9), (9, 9), (9, 9)], 1, 1, [1], None), ([(2, 2)] * 4, 100, 1, [3, 2], None)]
    # a failure at every operation index of a few workloads
    for reqs, B, K, picks in [([(3, 3), (4, 4), (2, 2)], 5, 1, [0, 1]), ([(1, 1), (9, 9)], 4, 2, [1, 0])]:
        for f in range(2 * len(reqs)):
            out.append((reqs, B, K, picks, f))
    if ctx.thorough:
        lattice = [0, 1, 4, 9]
        for n in (2, 3):
            for costs in itertools.product(lattice, repeat=n):
                for K in (1, 2):
                    for picks in itertools.product(range(3), repeat=3):
                        out.append(([(c, c) for c in costs], 4, K, list(picks), None))
                    for f in range(2 * n):
                        out.append(([(c, c) for c in costs], 4, K, [f % 2, 1], f))
    for _ in range(ctx.n(220, 1500)):
        B = rng.choice([1, 1, 2, 7, 10, 64])
        K = rng.choice([1, 1, 2, 3, 16])
        reqs = gen_reqs(rng, B, 7)
        picks = [rng.randint(0, 6) for _ in range(rng.randint(1, 16))]
        f = rng.randrange(2 * len(reqs)) if rng.random() < 0.3 else None
        out.append((reqs, B, K, picks, f))
    return out


def check_e2e(ctx: Ctx, res: Result):
    """End to end through the public API (the planners and the batcher sit between the application state and the
    scheduler): real Snapshot.take + restore of small states - zero-length tensors alone or next to others, objects,
    tensors around the slab threshold - under tight budgets / io concurrency, batching on and off.  Every payload location
    the committed manifest refers to was written exactly once, nothing else was written, and restore reads each needed
    location and reproduces the state."""
    import os
    import shutil
    import torch
    from torchsnapshot import Snapshot, StateDict
    from torchsnapshot.manifest import ChunkedTensorEntry, ObjectEntry, ShardedTensorEntry, TensorEntry
    from torchsnapshot.storage_plugins.fs import FSStoragePlugin
    from lib.world import safe_gc
    rng = ctx.rng
    writes, reads = [], []
    o_write, o_read = FSStoragePlugin.write, FSStoragePlugin.read

    async def write(self, write_io):
        await o_write(self, write_io)
        writes.append(write_io.path)

    async def read(self, read_io):
        await o_read(self, read_io)
        reads.append(read_io.path)
    KN = ["TORCHSNAPSHOT_DISABLE_BATCHING", "TORCHSNAPSHOT_PER_RANK_MEMORY_BUDGET_BYTES", "TORCHSNAPSHOT_SLAB_SIZE_THRESHOLD_BYTES_OVERRIDE",
          "TORCHSNAPSHOT_MAX_PER_RANK_IO_CONCURRENCY_OVERRIDE", "TORCHSNAPSHOT_MAX_CHUNK_SIZE_BYTES_OVERRIDE"]
    saved = {k: os.environ.get(k) for k in KN}
    FSStoragePlugin.write, FSStoragePlugin.read = write, read
    try:
        for i in range(ctx.n(16, 100)):
            shape_pool = [[0], [0, 3], [2], [5], [3, 2], [16], [1]]
            n = rng.randint(1, 6)
            state = {}
            for j in range(n):
                k = rng.random()
                if k < 0.75:
                    state[f"t{j}"] = torch.arange(int(torch.tensor(sh).prod()) if (sh := rng.choice(shape_pool)) else 0, dtype=rng.choice([torch.float32, torch.int8, torch.int64])).reshape(sh)
                elif k < 0.9:
                    state[f"o{j}"] = (j, "x" * rng.randint(0, 5))
                else:
                    state[f"p{j}"] = j
            if rng.random() < 0.3:
                state = {"only_empty": torch.zeros(0, 4)} if rng.random() < 0.5 else {"e": torch.zeros(0), "x": torch.ones(3)}
            knobs = {"TORCHSNAPSHOT_DISABLE_BATCHING": "1" if rng.random() < 0.4 else None,
                     "TORCHSNAPSHOT_PER_RANK_MEMORY_BUDGET_BYTES": str(rng.choice([1, 16, 64, 10 ** 8])),
                     "TORCHSNAPSHOT_SLAB_SIZE_THRESHOLD_BYTES_OVERRIDE": rng.choice([None, "8", "40"]),
                     "TORCHSNAPSHOT_MAX_PER_RANK_IO_CONCURRENCY_OVERRIDE": rng.choice([None, "1", "2"]),
                     "TORCHSNAPSHOT_MAX_CHUNK_SIZE_BYTES_OVERRIDE": rng.choice([None, "16"])}
            for k, v in knobs.items():
                if v is None:
                    os.environ.pop(k, None)
                else:
                    os.environ[k] = v
            root = ctx.scratch("c11e")
            desc = {k: (list(v.shape) if isinstance(v, torch.Tensor) else type(v).__name__) for k, v in state.items()}
            replay = {"e2e": True, "state": desc, "knobs": knobs}
            res.case({"e2e": True, "state": desc, "knobs": knobs}, nontrivial=len(state) >= 2)
            res.count("e2e.batching", "off" if knobs["TORCHSNAPSHOT_DISABLE_BATCHING"] else "on")
            try:
                del writes[:], reads[:]
                with safe_gc():
                    try:
                        Snapshot.take(os.path.join(root, "s"), {"m": StateDict(dict(state))})
                    except Exception as e:  # noqa
                        res.failures.append(Failure(f"C11:e2e:take-raised:{type(e).__name__}", f"take of {desc} raised {type(e).__name__}: {str(e)[:120]} [{knobs}]", replay))
                        continue
                    man = Snapshot(os.path.join(root, "s")).get_manifest()
                    locs = set()
                    for e in man.values():
                        if isinstance(e, ChunkedTensorEntry):
                            locs |= {c.tensor.location for c in e.chunks}
                        elif isinstance(e, ShardedTensorEntry):
                            locs |= {sh_.tensor.location for sh_ in e.shards}
                        elif isinstance(e, (TensorEntry, ObjectEntry)):
                            locs.add(e.location)
                    payload_writes = [w for w in writes if w != ".snapshot_metadata"]
                    never = sorted(l for l in locs if payload_writes.count(l) == 0)
                    twice = sorted(l for l in locs if payload_writes.count(l) > 1)
                    stray = sorted(set(payload_writes) - locs)
                    if never or twice or stray:
                        res.failures.append(Failure("C11:e2e:locations-not-written-exactly-once",
                                                    f"take of {desc}: locations referenced by the manifest never written {never}, written more than once {twice}, written but not referenced {stray} [{knobs}]", replay))
                    tgt = {"m": StateDict({k: (torch.full_like(v, 7) if isinstance(v, torch.Tensor) else None) for k, v in state.items()})}
                    try:
                        Snapshot(os.path.join(root, "s")).restore(tgt)
                        for k, v in state.items():
                            got = tgt["m"][k]
                            ok = torch.equal(got, v) and got.dtype == v.dtype if isinstance(v, torch.Tensor) else got == v
                            if not ok:
                                res.failures.append(Failure("C11:e2e:restore-differs", f"restore of {desc}: {k} differs [{knobs}]", replay))
                                break
                    except Exception as e:  # noqa
                        res.failures.append(Failure(f"C11:e2e:restore-raised:{type(e).__name__}", f"restore of a committed snapshot of {desc} raised {type(e).__name__}: {str(e)[:120]} [{knobs}]", replay))
            finally:
                shutil.rmtree(root, ignore_errors=True)
    finally:
        FSStoragePlugin.write, FSStoragePlugin.read = o_write, o_read
        for k, v in saved.items():
            if v is None:
                os.environ.pop(k, None)
            else:
                os.environ[k] = v


def correspond(ctx: Ctx) -> Result:
    res = Result(rule=RULE)
    check_e2e(ctx, res)
    wcoq, rcoq, wmeta, rmeta = [], [], [], []
    for reqs, B, K, picks, f in cases(ctx):
        for kind in ("write", "read"):
            replay = {"pipeline": kind, "reqs": reqs, "B": B, "K": K, "picks": picks, "fail_at": f}
            run = (sc.run_write if kind == "write" else sc.run_read)(reqs, B, K, picks, fail_at=f)
            res.case({"pipeline": kind, "reqs": reqs, "B": B, "K": K, "fail_at": f,
                      "completions": [(s["kind"], s["id"], s["fail"]) for s in run.steps]}, nontrivial=len(reqs) >= 2)
            res.count(f"{kind}.outcome", run.outcome); res.count(f"{kind}.failure_injected", f is not None)
            res.count(f"{kind}.n_reqs", len(reqs)); res.count(f"{kind}.K", K)
            oracle(kind, reqs, B, K, run, f, res, replay)
            if kind == "write":
                v0, events, obs, _ = sc.write_trace(reqs, run)
                wcoq.append((sc.wcase_term(reqs, K, B, v0, events, []), val([obs, []])))
                wmeta.append(replay)
            else:
                events, obs, _ = sc.read_trace(reqs, run)
                rcoq.append((sc.rcase_term(reqs, K, B, events), val(obs)))
                rmeta.append(replay)
    for tag, fn, coq, meta, ty, where in (("C11_w", "obs_wrun", wcoq, wmeta, WTYPE, CORRESPONDENCES[0]),
                                          ("C11_r", "obs_rrun", rcoq, rmeta, RTYPE, CORRESPONDENCES[1])):
        bad, errs = coqrun.run_cases(tag, IMPORTS, fn, coq, shard=250, in_type=ty)
        for e in errs:
            res.mismatches.append(Mismatch(where, "coqc error", None, e))
        for i in bad:
            res.mismatches.append(Mismatch(where, meta[i], coq[i][1][:600], None))
        res.traces_validated += len(coq)
    return res


def replay(ctx: Ctx, data):
    if data.get("e2e"):
        r = Result()
        check_e2e(Ctx(ctx.prop, ctx.tier, ctx.seed), r)      # the sweep is seeded: it reproduces the recorded case
        return r.failures[0] if r.failures else None
    r = Result()
    reqs = [tuple(x) for x in data["reqs"]]
    run = (sc.run_write if data["pipeline"] == "write" else sc.run_read)(reqs, data["B"], data["K"], data["picks"], fail_at=data.get("fail_at"))
    oracle(data["pipeline"], reqs, data["B"], data["K"], run, data.get("fail_at"), r, data)
    return r.failures[0] if r.failures else None


MANIFEST = {
    "level_text": ("Machine-checked proof (Coq 8.16.1) over the same source-translated pipeline models as C10: counting "
                   "invariants give 'every request staged/written (read/consumed) exactly once, never twice in any reachable "
                   "state'; two progress invariants give 'some operation is in flight in every non-final reachable state' "
                   "(asyncio.wait never gets an empty set); a measure gives termination after exactly 2n completions; failure "
                   "events lead to an absorbing Raised state. All for every request list, budget, cap >= 1, visit order and "
                   "completion order. Validated by trace correspondence against gated real executions under a watchdog with "
                   "failure injection at every operation index."),
    "level_note": ("Trusted: Coq kernel+VM, translator, event-loop abstraction, gated-asyncio harness. Liveness of the environment "
                   "(a started operation eventually completes or fails) is the stated fairness assumption. No axioms."),
    "technique": "Coq invariant/measure proofs over source-translated guards + trace correspondence with failure injection",
    "design_ref": "DESIGN.md section 5, C11",
}
