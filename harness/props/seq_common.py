"""Operation sequences on one process through the public API (shared by C01 and friends).

One sequence = a seeded list of operations against the REAL library in this process: take / async_take+wait to fresh paths,
restore (all keys or a subset, into in-place / None / wrong-shaped targets, through a cached Snapshot object or a fresh one,
strict or not), read_object (any leaf, with or without a memory budget, with or without a matching obj_out),
get_state_dict_for_key, knob changes between operations (batching, chunk size, slab threshold, memory budget, io concurrency),
and operations issued from inside a running event loop.  The oracle is a plain dictionary kept by the harness: what was saved
under each path.  Every read-side operation must return exactly that, whatever happened before it in the process (caches on
Snapshot objects, module-level state, reused buffers, knobs read at the wrong time ...).

A failure is (signature, description, replay); the replay is (seed, number of operations): sequences are regenerated from it."""
from __future__ import annotations

import asyncio
import collections
import os
import random
import shutil

from props import state_gen as sg

KNOBS = {"TORCHSNAPSHOT_DISABLE_BATCHING": [None, None, "1"],
         "TORCHSNAPSHOT_MAX_CHUNK_SIZE_BYTES_OVERRIDE": [None, None, "7", "16", "64"],
         "TORCHSNAPSHOT_SLAB_SIZE_THRESHOLD_BYTES_OVERRIDE": [None, None, "1", "9", "40"],
         "TORCHSNAPSHOT_PER_RANK_MEMORY_BUDGET_BYTES": [None, "1", "50", "100000000", "100000000"],
         "TORCHSNAPSHOT_MAX_PER_RANK_IO_CONCURRENCY_OVERRIDE": [None, None, "1", "2"]}


def _leaves(x, prefix=""):
    """(manifest-style logical path components, leaf) of a built state; only through str-keyed flattenable containers"""
    import torch
    out = []
    if isinstance(x, (dict, collections.OrderedDict)):
        if all(isinstance(k, (str, int)) for k in x) and len({str(k) for k in x}) == len(x):
            for k, v in x.items():
                out += _leaves(v, prefix + [str(k)] if isinstance(prefix, list) else [str(k)])
            return out
        return [(prefix, x)]
    if isinstance(x, list):
        for i, v in enumerate(x):
            out += _leaves(v, (prefix if isinstance(prefix, list) else []) + [str(i)])
        return out
    return [(prefix if isinstance(prefix, list) else [], x)]


def _enc(s: str) -> str:
    s = s.replace("%", "%25").replace("/", "%2F")
    return s.replace(".", "%2E") if s in (".", "..") else s


def _glob_escape(s: str) -> str:
    return "".join("[" + c + "]" if c in "*?[" else c for c in s)


def _gen_app(rng):
    keys = rng.sample(["model", "optim", "x/y", "progress", "ü", "m.1"], rng.randint(1, 3))
    app = {}
    for k in keys:
        s = sg.gen_struct(rng, 0)
        while s[0] not in ("dict", "odict"):
            s = sg.gen_struct(rng, 0)
        app[k] = s
    return app


def _call(fn, in_loop):
    if not in_loop:
        return fn()

    async def main():
        return fn()
    return asyncio.run(main())


def run_sequence(ctx, seed: int, n_ops: int, fails: list, counts: dict):
    """run one sequence; append (signature, description) to fails; count operations in counts"""
    import torch
    from lib.world import safe_gc
    from torchsnapshot import Snapshot, StateDict
    rng = random.Random(seed)
    root = ctx.scratch("seq")
    saved_env = {k: os.environ.get(k) for k in KNOBS}
    snaps = []           # {"path", "spec": app spec, "obj": Snapshot | None}
    log = []

    def note(op, **kw):
        log.append((op, kw))
        counts[op] = counts.get(op, 0) + 1

    def fail(sig, what):
        fails.append((sig, f"{what} [after {[o for o, _ in log]}; knobs={ {k.split('TORCHSNAPSHOT_')[1]: os.environ.get(k) for k in KNOBS if os.environ.get(k)} }]"))
    try:
        with safe_gc():
            for step in range(n_ops):
                in_loop = rng.random() < 0.15
                r = rng.random()
                if r < 0.15 or not snaps:
                    # ---- knobs change between operations
                    for k, vals in KNOBS.items():
                        if rng.random() < 0.5:
                            v = rng.choice(vals)
                            if v is None:
                                os.environ.pop(k, None)
                            else:
                                os.environ[k] = v
                    note("knobs")
                    if snaps:
                        continue
                if r < 0.4 or not snaps:
                    spec = _gen_app(rng)
                    path = os.path.join(root, f"s{len(snaps)}")
                    state = {k: StateDict(sg.build(s, None)) for k, s in spec.items()}
                    use_async = rng.random() < 0.35
                    # some keys are declared replicated (their entries are then visible to EVERY rank index, also to
                    # ranks that did not exist when the snapshot was taken)
                    repl_keys = [k for k in spec if rng.random() < 0.4]
                    globs = [_glob_escape(_enc(k)) + "/**" for k in repl_keys] or None
                    note("async_take" if use_async else "take", in_loop=in_loop, replicated=repl_keys)
                    try:
                        if use_async:
                            obj = _call(lambda: Snapshot.async_take(path, state, replicated=globs).wait(), in_loop)
                        else:
                            obj = _call(lambda: Snapshot.take(path, state, replicated=globs), in_loop)
                    except Exception as e:  # noqa
                        fail(f"seq:take-raised:{type(e).__name__}", f"{'async_take' if use_async else 'take'} raised {type(e).__name__}: {str(e)[:160]}")
                        continue
                    snaps.append({"path": path, "spec": spec, "obj": obj, "repl": repl_keys})
                    continue
                sn = rng.choice(snaps)
                expect = {k: sg.build(s, None) for k, s in sn["spec"].items()}
                via_cached = rng.random() < 0.6
                snap = sn["obj"] if via_cached and sn["obj"] is not None else Snapshot(sn["path"])
                if not via_cached:
                    sn["obj"] = snap if rng.random() < 0.5 else sn["obj"]
                if r < 0.7:
                    keys = list(expect)
                    subset = keys if rng.random() < 0.6 else rng.sample(keys, rng.randint(1, len(keys)))
                    mode = rng.choice(["inplace", "none", "wrong"])
                    targets = {k: StateDict(sg.blank_like(expect[k], mode, rng) if mode != "none" else {}) for k in subset}
                    note("restore", mode=mode, cached=via_cached, in_loop=in_loop)
                    try:
                        _call(lambda: snap.restore(targets), in_loop)
                    except Exception as e:  # noqa
                        fail(f"seq:restore-raised:{type(e).__name__}", f"restore({subset}, targets={mode}) of {os.path.basename(sn['path'])} raised {type(e).__name__}: {str(e)[:160]}")
                        continue
                    for k in subset:
                        got = targets[k].data
                        d = None
                        if [(type(x), x) for x in got.keys()] != [(type(x), x) for x in expect[k].keys()]:
                            d = f"{k}: top-level keys/order {list(got.keys())!r} vs {list(expect[k].keys())!r}"
                        else:
                            for kk in expect[k]:
                                d = d or sg.equal_exact(got[kk], expect[k][kk], f"{k}/{kk!r}")
                        if d:
                            fail(f"seq:restore-differs:{mode}", f"restore({subset}, targets={mode}, {'cached' if via_cached else 'fresh'} Snapshot object) of {os.path.basename(sn['path'])}: {d}")
                            break
                elif r < 0.9:
                    key = rng.choice(list(expect))
                    leaves = _leaves(expect[key], [])
                    if not leaves:
                        continue
                    comps, leaf = rng.choice(leaves)
                    # a replicated entry may be asked for under any rank index (a rank >= the saved world size is a "new rank")
                    rank_ix = rng.choice([0, 0, 1, 3]) if key in sn.get("repl", []) else 0
                    mpath = f"{rank_ix}/" + "/".join([_enc(key)] + [_enc(c) for c in comps])
                    budget = rng.choice([None, None, 1, 7, 64])
                    out = None
                    if isinstance(leaf, torch.Tensor) and rng.random() < 0.5:
                        out = torch.zeros(list(leaf.shape), dtype=leaf.dtype)
                    note("read_object", budget=budget, inplace=out is not None, cached=via_cached, in_loop=in_loop)
                    try:
                        got = _call(lambda: snap.read_object(mpath, obj_out=out, memory_budget_bytes=budget), in_loop)
                    except Exception as e:  # noqa
                        fail(f"seq:read_object-raised:{type(e).__name__}", f"read_object({mpath!r}, budget={budget}) raised {type(e).__name__}: {str(e)[:160]}")
                        continue
                    d = sg.equal_exact(got, leaf, mpath)
                    if d:
                        fail("seq:read_object-differs", f"read_object({mpath!r}, budget={budget}, obj_out={'matching' if out is not None else None}): {d}")
                else:
                    key = rng.choice(list(expect))
                    note("get_state_dict_for_key", cached=via_cached, in_loop=in_loop)
                    try:
                        got = _call(lambda: snap.get_state_dict_for_key(key), in_loop)
                    except Exception as e:  # noqa
                        fail(f"seq:get_state_dict_for_key-raised:{type(e).__name__}", f"get_state_dict_for_key({key!r}) raised {type(e).__name__}: {str(e)[:160]}")
                        continue
                    d = None          # (StateDict is a UserDict: the top level is a plain dict whatever was passed in)
                    if [(type(x), x) for x in got.keys()] != [(type(x), x) for x in expect[key].keys()]:
                        d = f"{key}: top-level keys/order {list(got.keys())!r} vs {list(expect[key].keys())!r}"
                    else:
                        for kk in expect[key]:
                            d = d or sg.equal_exact(got[kk], expect[key][kk], f"{key}/{kk!r}")
                    if d:
                        fail("seq:get_state_dict_for_key-differs", f"get_state_dict_for_key({key!r}): {d}")
    finally:
        for k, v in saved_env.items():
            if v is None:
                os.environ.pop(k, None)
            else:
                os.environ[k] = v
        shutil.rmtree(root, ignore_errors=True)


def run_scripted(ctx, fails: list, counts: dict):
    """fixed sequences aimed at state kept on a Snapshot object between calls: a snapshot with one replicated and one
    private stateful; a replicated leaf is read under the index of a rank that did not exist at save time; then the same
    Snapshot object restores, and answers get_state_dict_for_key, for rank 0."""
    import torch
    from lib.world import safe_gc
    from torchsnapshot import Snapshot, StateDict
    root = ctx.scratch("seqs")
    try:
        with safe_gc():
            for use_async in (False, True):
                path = os.path.join(root, "a" if use_async else "s")
                mk = lambda: {"model": StateDict(w=torch.arange(6.).reshape(2, 3), b=torch.ones(2)),
                              "progress": StateDict(step=17, name="run-a", stats=collections.OrderedDict(loss=torch.tensor([0.5]), seen=3),
                                                    history=[1, {"lr": 0.1}])}
                state = mk()
                snap = (Snapshot.async_take(path, state, replicated=["model/**"]).wait() if use_async
                        else Snapshot.take(path, state, replicated=["model/**"]))
                counts["scripted"] = counts.get("scripted", 0) + 1
                for first in ("1/model/w", "3/model/b"):
                    got = snap.read_object(first)
                    if sg.equal_exact(got, mk()["model"][first.split("/")[-1]], first):
                        fails.append(("seq:scripted:new-rank-read-differs", f"read_object({first!r}) of a replicated entry differs"))
                    tgt = {"model": StateDict(w=torch.zeros(2, 3), b=torch.zeros(2)), "progress": StateDict()}
                    snap.restore(tgt)
                    for k, exp in mk().items():
                        d = None
                        if list(tgt[k].data.keys()) != list(exp.data.keys()):
                            d = f"{k}: keys {list(tgt[k].data.keys())!r} vs {list(exp.data.keys())!r}"
                        else:
                            for kk in exp.data:
                                d = d or sg.equal_exact(tgt[k].data[kk], exp.data[kk], f"{k}/{kk}")
                        if d:
                            fails.append(("seq:scripted:restore-after-new-rank-read-differs",
                                          f"restore() through the Snapshot object that had served read_object({first!r}) ({'async_take' if use_async else 'take'}): {d}"))
                            break
                    sd = snap.get_state_dict_for_key("progress")
                    if list(sd.keys()) != ["step", "name", "stats", "history"]:
                        fails.append(("seq:scripted:get_state_dict_for_key-after-new-rank-read-differs", f"get_state_dict_for_key('progress') keys {list(sd.keys())!r}"))
    finally:
        shutil.rmtree(root, ignore_errors=True)


def run_statefuls(ctx, fails: list, counts: dict):
    """unusual but legal statefuls, saved with take and async_take under two knob settings and restored into fresh objects of
    the same structure: an nn.Module with tied weights and buffers, an optimizer with state, a stateful whose state_dict()
    hands out views of ONE storage (overlapping, transposed) and the same tensor under two keys, an empty state dict,
    int / mixed top-level keys, a stateful that returns a NEW dict with new tensors on every call."""
    import torch
    from lib.world import safe_gc
    from torchsnapshot import Snapshot, StateDict

    class Views:
        def __init__(self, fill):
            self.base = (torch.arange(24, dtype=torch.float32) if fill else torch.zeros(24)).reshape(4, 6)

        def state_dict(self):
            b = self.base
            return {"rows01": b[0:2], "rows12": b[1:3], "t": b.t(), "same_a": b, "same_b": b, "col": b[:, 2], "scalar_view": b[3, 5]}

        def load_state_dict(self, sd):
            self.loaded = sd

    class Fresh:
        """state_dict() builds new tensors on every call (nothing to load in place)"""
        def __init__(self, fill):
            self.v = 3.0 if fill else 0.0
            self.loaded = None

        def state_dict(self):
            return {"x": torch.full((5,), self.v), 1: torch.full((2,), self.v + 1), "n": {"k": int(self.v)}}

        def load_state_dict(self, sd):
            self.loaded = sd

    def module(fill):
        m = torch.nn.Sequential(torch.nn.Linear(3, 3, bias=False), torch.nn.BatchNorm1d(3), torch.nn.Linear(3, 3, bias=False))
        m[2].weight = m[0].weight                      # tied weights
        with torch.no_grad():
            for i, p in enumerate(m.parameters()):
                p.copy_(torch.arange(p.numel(), dtype=torch.float32).reshape(p.shape) + i if fill else torch.zeros_like(p))
            m[1].running_mean.fill_(0.25 if fill else 0.0)
        return m

    def optimizer(fill, mod):
        o = torch.optim.SGD(mod.parameters(), lr=0.1, momentum=0.9)
        if fill:
            mod(torch.ones(2, 3)).sum().backward()
            o.step()
        return o
    root = ctx.scratch("seqst")
    saved_env = {k: os.environ.get(k) for k in KNOBS}
    try:
        with safe_gc():
            for kn, use_async in (({}, False), ({"TORCHSNAPSHOT_DISABLE_BATCHING": "1", "TORCHSNAPSHOT_MAX_CHUNK_SIZE_BYTES_OVERRIDE": "16"}, True),
                                  ({"TORCHSNAPSHOT_SLAB_SIZE_THRESHOLD_BYTES_OVERRIDE": "9", "TORCHSNAPSHOT_PER_RANK_MEMORY_BUDGET_BYTES": "50"}, False)):
                for k in KNOBS:
                    os.environ.pop(k, None)
                os.environ.update(kn)
                path = os.path.join(root, f"s{len(kn)}{int(use_async)}")
                m1 = module(True)
                src = {"views": Views(True), "fresh": Fresh(True), "mod": m1, "opt": optimizer(True, m1), "empty": StateDict(), 7: StateDict(a=1)} \
                    if False else {"views": Views(True), "fresh": Fresh(True), "mod": m1, "opt": optimizer(True, m1), "empty": StateDict()}
                before = {k: {kk: (vv.clone() if isinstance(vv, torch.Tensor) else vv) for kk, vv in v.state_dict().items()} for k, v in src.items() if k in ("views", "mod")}
                counts["statefuls"] = counts.get("statefuls", 0) + 1
                try:
                    if use_async:
                        Snapshot.async_take(path, src).wait()
                    else:
                        Snapshot.take(path, src)
                except Exception as e:  # noqa
                    fails.append((f"seq:statefuls:take-raised:{type(e).__name__}", f"take of unusual statefuls raised {type(e).__name__}: {str(e)[:160]} [knobs {kn}]"))
                    continue
                m2 = module(False)
                dst = {"views": Views(False), "fresh": Fresh(False), "mod": m2, "opt": optimizer(False, m2), "empty": StateDict()}
                try:
                    Snapshot(path).restore(dst)
                except Exception as e:  # noqa
                    fails.append((f"seq:statefuls:restore-raised:{type(e).__name__}", f"restore of unusual statefuls raised {type(e).__name__}: {str(e)[:160]} [knobs {kn}]"))
                    continue
                want_v = Views(True).state_dict()
                got_v = dst["views"].loaded
                d = None
                if list(got_v.keys()) != list(want_v.keys()):
                    d = f"views: keys {list(got_v.keys())} vs {list(want_v.keys())}"
                else:
                    for kk in want_v:
                        d = d or sg.equal_exact(got_v[kk].contiguous(), want_v[kk].contiguous(), f"views/{kk}")
                want_f = Fresh(True).state_dict()
                got_f = dst["fresh"].loaded
                if not d and ([(type(x), x) for x in got_f] != [(type(x), x) for x in want_f]):
                    d = f"fresh: keys {list(got_f)} vs {list(want_f)}"
                for kk in want_f:
                    d = d or sg.equal_exact(got_f[kk], want_f[kk], f"fresh/{kk!r}")
                mref = module(True)
                oref = optimizer(True, mref)           # (the optimizer step also moves the module's weights, as in the source)
                ms, md = mref.state_dict(), m2.state_dict()
                for kk in ms:
                    d = d or sg.equal_exact(md[kk], ms[kk], f"mod/{kk}")
                if not d and m2[2].weight is not m2[0].weight:
                    d = "mod: tied weights are no longer tied after restore"
                os_, od = oref.state_dict(), dst["opt"].state_dict()
                if not d and od["param_groups"] != os_["param_groups"]:
                    d = f"opt: param_groups {od['param_groups']} vs {os_['param_groups']}"
                for pid, st in os_["state"].items():
                    for kk, vv in st.items():
                        if isinstance(vv, torch.Tensor):
                            d = d or (None if pid in od["state"] and kk in od["state"][pid] else f"opt: state[{pid}][{kk}] missing") \
                                or sg.equal_exact(od["state"][pid][kk], vv, f"opt/state/{pid}/{kk}")
                # take must not have modified the source
                for k, snap0 in before.items():
                    now = src[k].state_dict()
                    for kk, vv in snap0.items():
                        if isinstance(vv, torch.Tensor):
                            d = d or sg.equal_exact(now[kk].contiguous(), vv.contiguous(), f"source {k}/{kk} after take")
                if d:
                    fails.append(("seq:statefuls:restore-differs", f"{'async_take' if use_async else 'take'} + restore of unusual statefuls: {d} [knobs {kn}]"))
    finally:
        for k, v in saved_env.items():
            if v is None:
                os.environ.pop(k, None)
            else:
                os.environ[k] = v
        shutil.rmtree(root, ignore_errors=True)
