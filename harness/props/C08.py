"""C08 - Resharding: any saved sharding loads correctly into any target sharding."""
from __future__ import annotations

import asyncio
import itertools
import os
import shutil

from lib import coqrun
from lib.core import Ctx, Failure, Mismatch, Result
from lib.tocoq import Nat, term, val

PROP = "C08"
PROPS_FILE = "props/C08.v"
GEN = ["gen_reshard", "gen_chunk"]
CORRESPONDENCES = [
    "overlap:_check_shard_metadata_pair_overlap+overlap_region~model",
    "write:prepare_write/subdivide_shard~model",
    "read:prepare_read+consumers~model",
    "merge:_get_merged_sharded_tensor_entries~model",
    "gen:model/ReshardGenObs.v builds on the generated terms",
    "gen-overlap:_shards_get_overlap_region_wrt_saved_tensor~generated loop",
    "gen-write:prepare_write/subdivide_shard~generated arithmetic",
    "gen-read:prepare_read+consumers+shapes~generated plan, views, shapes",
]
API_ENV = {"maxshard": "TORCHSNAPSHOT_MAX_SHARD_SIZE_BYTES_OVERRIDE", "nobatch": "TORCHSNAPSHOT_DISABLE_BATCHING",
           "slab": "TORCHSNAPSHOT_SLAB_SIZE_THRESHOLD_BYTES_OVERRIDE", "rank_budget": "TORCHSNAPSHOT_PER_RANK_MEMORY_BUDGET_BYTES"}
RULE = ("overlap: every pair of boxes with offsets 0..3/sizes 0..3 (1-D) and offsets 0..2/sizes 0..2 (2-D), plus random "
        "3-D pairs, through torch's _check_shard_metadata_pair_overlap and _shards_get_overlap_region_wrt_saved_tensor; "
        "e2e: real ShardedTensor (world-size-1 gloo, _init_from_local_shards, local shards in shuffled order) of shape "
        "1-3 dims, extents 1..5, grid partition with 0..2 cuts per axis -> prepare_write under a max-shard-size override "
        "(1 element .. whole, at/around the row size) -> staged bytes in a dict store -> prepare_read into a ShardedTensor "
        "with another grid partition (same or different global shape) / a dense tensor (same or different shape, also "
        "non-contiguous) / obj_out=None, sentinel pre-filled; consumers run in a shuffled order; dtypes int64, int32, "
        "float32, uint8, bfloat16; thorough tier adds all pairs of grid partitions (0..2 cuts per axis) for shapes (1..5,), 3x3, 4x2, 2x4, "
        "1x3, 4x3, 3x4, 4x4, 2x2x2, 2x2x3, 3x2x2, each under three thresholds, plus dense/None/other-shape targets. synthetic: hand-made ShardedTensorEntry lists from random guillotine (non-grid) partitions, shards spread "
        "over ranks and slab byte ranges, merged by the real _get_merged_sharded_tensor_entries or shuffled, optionally "
        "with holes. A case is non-trivial when at least one element is copied; distinct by content hash. Every case is "
        "evaluated twice inside coqc: by the hand-written model (model/Reshard.v) and by the terms regenerated from the "
        "source in this run (gen/ReshardGen.v, gen/ChunkGen.v through model/ReshardGenObs.v): regions with their dims, "
        "the requests with path / byte range / entry, final contents, both shape computations, the dense box. "
        "api: through the public API and the real read scheduler - Snapshot.take of a real ShardedTensor (1-3 dims, grid "
        "partition, >= 2 shards, max-shard-size override none / one element / one row / two rows, batching on and off, slab "
        "threshold default / 40 bytes) to a scratch directory, then Snapshot.read_object into a ShardedTensor with another "
        "partition (same or different global shape), a dense tensor, obj_out=None, each with memory_budget_bytes in "
        "{None, 1, 1.5 saved shards, 10^8}, and Snapshot.restore into a differently sharded ShardedTensor with "
        "TORCHSNAPSHOT_PER_RANK_MEMORY_BUDGET_BYTES in {unset, 1, 1.5 saved shards}; same oracle (covered elements equal the "
        "saved tensor, all others keep their sentinel).")
TRUSTED = [
    "Coq 8.16.1 kernel and its vm_compute VM (no native_compute)",
    "translator/gen_reshard.py (Python ast -> Gallina, fail closed, regenerated on every run): the loop of "
    "_shards_get_overlap_region_wrt_saved_tensor, _OverlappingRegion.get_views, the copy of consume_buffer, both loops of "
    "prepare_read (loop nest, skip conditions, the three dictionary-key expressions, saved/current argument order, ReadReq "
    "fields), _get_global_shape, _validate_shape, ShardedTensorEntry.get_tensor_shape, the statements of subdivide_shard "
    "that build a piece (list updates, narrow, appended triple); translator/gen_chunk.py for the arithmetic of "
    "subdivide_shard.  The per-run proof obligations are the instantiation lemmas of coq/proofs/ReshardInst.v",
    "hand-written parts of coq/model/Reshard.v that the generated terms are phrased in: boxes, tensors as functions, "
    "views as (offset vector, shape) with torch.narrow moving the offset, copy_ between views, torch's "
    "_check_shard_metadata_pair_overlap (validated exhaustively on small boxes every run), the store lookup by "
    "(path, byte_range), prepare_write around subdivide_shard, the dispatch on type(obj_out), the merge of per-rank entries; "
    "all tied to the code by differential runs of the generated terms and of the hand model against the real classes",
    "harness/props/C08.py generators, oracle, canonicalisation and lib/tocoq.py literal printer",
]
ASSUMPTIONS = [
    "offsets and sizes of every shard have the tensor's number of dimensions; sizes are non-negative",
    "saved shards are pairwise disjoint and have distinct (location, byte_range); locations are compared as strings "
    "(the model numbers them by first occurrence), a byte range is None or a pair of integers",
    "destination shards do not alias each other's storage",
    "DTensor placement arithmetic (compute_local_shape_and_global_offset) is torch's and is not modelled",
]

IMPORTS = "From TS Require Import model.Reshard.\n"
GEN_IMPORTS = "From TS Require Import model.Reshard model.ReshardGenObs.\n"
DTYPES = ["int64", "int32", "float32", "uint8", "bfloat16"]
ESIZE = {"int64": 8, "int32": 4, "float32": 4, "uint8": 1, "bfloat16": 2}
BAD_ID = -7777


# --------------------------------------------------------------------------- process group
class C08Group:
    """world-size-1 gloo group through a file:// rendezvous in a scratch directory."""

    def __init__(self, ctx: Ctx):
        self.ctx = ctx
        self.dir = None
        self.created = False

    def __enter__(self):
        import torch.distributed as dist
        if not dist.is_initialized():
            self.dir = self.ctx.scratch("pg")
            dist.init_process_group("gloo", init_method=f"file://{self.dir}/rendezvous", rank=0, world_size=1)
            self.created = True
        return self

    def __exit__(self, *a):
        import torch.distributed as dist
        if self.created and dist.is_initialized():
            dist.destroy_process_group()
        if self.dir:
            shutil.rmtree(self.dir, ignore_errors=True)


# --------------------------------------------------------------------------- small geometry helpers (oracle side)
def C08_numel(sz):
    n = 1
    for s in sz:
        n *= s
    return n


def C08_coords(sz):
    return list(itertools.product(*[range(s) for s in sz]))


def C08_in_box(box, g):
    off, sz = box
    return all(o <= x < o + s for o, s, x in zip(off, sz, g))


def C08_gid(shape, g):
    """element id of the saved global tensor at coordinate g: 1 + row-major index"""
    k = 0
    for e, x in zip(shape, g):
        k = k * e + x
    return 1 + k


def C08_sentinel(k, i):
    return 130 + ((7 * k + i) % 120)


def C08_grid_boxes(cuts):
    """cuts: per axis the cut points incl. 0 and the extent -> boxes in row-major order"""
    axes = [[(c[i], c[i + 1] - c[i]) for i in range(len(c) - 1)] for c in cuts]
    return [([p[0] for p in combo], [p[1] for p in combo]) for combo in itertools.product(*axes)]


def C08_all_cuts(extent, maxcuts=2):
    out = []
    for k in range(0, maxcuts + 1):
        for pts in itertools.combinations(range(1, extent), k):
            out.append([0] + list(pts) + [extent])
    return out


def C08_random_cuts(rng, extent):
    k = rng.choice([0, 1, 1, 2, 2])
    k = min(k, extent - 1)
    return [0] + sorted(rng.sample(range(1, extent), k)) + [extent]


def C08_guillotine(rng, box, depth):
    """random non-grid rectangular partition of a box"""
    off, sz = box
    axes = [d for d in range(len(sz)) if sz[d] > 1]
    if depth == 0 or not axes or rng.random() < 0.25:
        return [box]
    d = rng.choice(axes)
    k = rng.randint(1, sz[d] - 1)
    a = (list(off), list(sz))
    a[1][d] = k
    b = (list(off), list(sz))
    b[0][d] += k
    b[1][d] -= k
    return C08_guillotine(rng, a, depth - 1) + C08_guillotine(rng, b, depth - 1)


# --------------------------------------------------------------------------- tensors <-> ids
def C08_tensor(ids, sz, dtype):
    import torch
    return torch.tensor(ids, dtype=torch.int64).reshape(list(sz)).to(getattr(torch, dtype)).contiguous()


def C08_ids(t):
    import torch
    flat = t.detach().reshape(-1)
    if flat.dtype == torch.bfloat16:
        # bit-exact route: the int16 view must be the canonical bfloat16 pattern of the id it decodes to
        f = flat.to(torch.float32)
        back = f.to(torch.bfloat16)
        ok = torch.equal(back.contiguous().view(torch.int16), flat.contiguous().view(torch.int16))
        vals = f.to(torch.float64).tolist()
        if not ok:
            return [BAD_ID] * len(vals)
    else:
        vals = flat.to(torch.float64).tolist()
    out = []
    for v in vals:
        out.append(int(v) if v == v and abs(v) < 1e9 and v == int(v) else BAD_ID)
    return out


def C08_global(shape, dtype):
    n = C08_numel(shape)
    return C08_tensor(list(range(1, n + 1)), shape, dtype)


def C08_slice(G, box):
    off, sz = box
    return G[tuple(slice(o, o + s) for o, s in zip(off, sz))].clone().contiguous()


def C08_make_sharded(boxes, shape, tensors):
    from torch.distributed._shard.sharded_tensor import Shard, ShardedTensor, ShardMetadata
    shards = [Shard(t, ShardMetadata(shard_offsets=list(b[0]), shard_sizes=list(b[1]), placement="rank:0/cpu"))
              for b, t in zip(boxes, tensors)]
    return ShardedTensor._init_from_local_shards(shards, tuple(shape))


def C08_decode(buf, dtype, sz):
    import torch
    n = C08_numel(sz)
    if len(buf) != n * ESIZE[dtype]:
        return None
    if n == 0:
        return []
    return C08_ids(torch.frombuffer(bytearray(buf), dtype=getattr(torch, dtype)))


class C08Raised(Exception):
    def __init__(self, stage, exc):
        super().__init__(f"{stage}: {type(exc).__name__}: {exc}")
        self.stage = stage
        self.exc = exc


# --------------------------------------------------------------------------- running the real code
def C08_write_phase(case, loop):
    """real ShardedTensor -> prepare_write -> staged bytes. Returns (entry, store, subdivision dim)."""
    if "negdim" not in case:
        case["negdim"] = (hash((tuple(case["shape"]), case["max_bytes"], case.get("order_seed", 0))) % 2 == 1)
    from torchsnapshot.io_preparers.sharded_tensor import ShardedTensorIOPreparer
    from torchsnapshot.knobs import override_max_shard_size_bytes

    G = C08_global(case["shape"], case["dtype"])
    src = C08_make_sharded(case["src_boxes"], case["shape"], [C08_slice(G, b) for b in case["src_boxes"]])
    # the dim prepare_write subdivides along is an input of the scenario: torch infers a ChunkShardingSpec
    # (with its dim) when the local shards look like torch.chunk pieces, an EnumerableShardingSpec otherwise
    from torch.distributed._shard.sharding_spec import ChunkShardingSpec
    spec = src.sharding_spec()
    dim = int(spec.dim) if isinstance(spec, ChunkShardingSpec) else 0
    if isinstance(spec, ChunkShardingSpec) and case.get("negdim"):
        # PyTorch accepts a negative sharding dim (dim=-1 is the last dim): same sharding, spelled differently
        import copy as _copy
        neg = _copy.copy(spec)
        neg.dim = dim - len(case["shape"])
        src._sharding_spec = neg
    try:
        with override_max_shard_size_bytes(case["max_bytes"]):
            entry, wrs = ShardedTensorIOPreparer.prepare_write("sharded/x", src)
    except Exception as e:
        raise C08Raised("prepare_write", e)
    store = {}
    try:
        for wr in wrs:
            store[wr.path] = bytes(loop.run_until_complete(wr.buffer_stager.stage_buffer()))
    except Exception as e:
        raise C08Raised("stage_buffer", e)
    return entry, store, dim


def C08_saved_obs(entry, store, dtype):
    """[(offsets, sizes, key, ids)] in entry order; key = [location id, lo, hi] ([location id] when the entry has no
    byte range), location id = first-occurrence index of the location string.  Returns (list, location ids)."""
    locs = {}
    out = []
    for sh in entry.shards:
        k = [locs.setdefault(sh.tensor.location, len(locs))]
        if sh.tensor.byte_range is not None:
            k += [int(sh.tensor.byte_range[0]), int(sh.tensor.byte_range[1])]
        buf = store.get(sh.tensor.location)
        if buf is not None and sh.tensor.byte_range is not None:
            buf = buf[sh.tensor.byte_range[0]:sh.tensor.byte_range[1]]
        ids = None if buf is None else C08_decode(buf, dtype, sh.sizes)
        out.append((list(sh.offsets), list(sh.sizes), k, ids))
    return out, locs


def C08_make_dst(dst, dtype):
    """returns (obj_out, dst_boxes, initial ids per box, accessor giving the tensors after the load)"""
    import torch
    kind = dst["kind"]
    if kind == "none":
        return None, None, None
    if kind == "dense":
        shape = dst["shape"]
        init = [C08_sentinel(0, i) for i in range(C08_numel(shape))]
        t = C08_tensor(init, shape, dtype)
        if dst.get("noncontig") and len(shape) >= 2:
            perm = list(range(len(shape)))[::-1]
            base = torch.empty([shape[p] for p in perm], dtype=t.dtype)
            view = base.permute(perm)
            view.copy_(t)
            t = view
        return t, [([0] * len(shape), list(shape))], [init]
    boxes = dst["boxes"]
    inits = [[C08_sentinel(k, i) for i in range(C08_numel(b[1]))] for k, b in enumerate(boxes)]
    st = C08_make_sharded(boxes, dst["shape"], [C08_tensor(ini, b[1], dtype) for ini, b in zip(inits, boxes)])
    return st, [(list(b[0]), list(b[1])) for b in boxes], inits


def C08_read_phase(entry, store, dst, dtype, order_seed, loop, locs=None):
    """real prepare_read + consumers. Returns dict(reqs, greqs, final, dst_boxes, inits, gshape, tshape, out_shape, notes)."""
    import random
    import torch
    from torch.distributed._shard.sharded_tensor import ShardedTensor
    from torchsnapshot.io_preparers.sharded_tensor import ShardedTensorIOPreparer

    obj_out, dst_boxes, inits = C08_make_dst(dst, dtype)
    try:
        gshape = list(ShardedTensorIOPreparer._get_global_shape(entry))
    except Exception as e:
        raise C08Raised("_get_global_shape", e)
    try:
        tshape = list(entry.get_tensor_shape())
    except Exception as e:
        raise C08Raised("get_tensor_shape", e)
    try:
        rrs, fut = ShardedTensorIOPreparer.prepare_read(entry, obj_out)
    except Exception as e:
        raise C08Raised("prepare_read", e)
    out = fut.obj
    notes = []
    out_shape = (list(out.metadata().size) if isinstance(out, ShardedTensor) else list(out.shape)) if out is not None else []
    if obj_out is None:
        if not (type(out) is torch.Tensor):
            notes.append(f"obj_out=None returned {type(out).__name__}")
            dst_tensors = []
            dst_boxes, inits = [], []
        else:
            dst_tensors = [out]
            dst_boxes = [([0] * out.dim(), list(out.shape))]
            inits = [[-1] * out.numel()]
    else:
        if out is not obj_out:
            notes.append("future does not hold obj_out")
        dst_tensors = [s.tensor for s in obj_out.local_shards()] if isinstance(obj_out, ShardedTensor) else [obj_out]
        if isinstance(obj_out, ShardedTensor):
            got = [(list(s.metadata.shard_offsets), list(s.metadata.shard_sizes)) for s in obj_out.local_shards()]
            if got != dst_boxes:
                notes.append("local_shards() order differs from construction order")
                dst_boxes = got
    # observed plan -------------------------------------------------------------
    reqs = []
    greqs = []
    for rr in rrs:
        c = rr.buffer_consumer
        js = [j for j, sh in enumerate(entry.shards) if sh.tensor is c.entry]
        j = js[0] if js else -1
        if j >= 0 and (rr.path != entry.shards[j].tensor.location or rr.byte_range != entry.shards[j].tensor.byte_range_tuple):
            notes.append(f"read request {len(reqs)} path/byte_range differ from its entry")
        regs = []
        for r in c.overlapping_regions:
            ii = [i for i, t in enumerate(dst_tensors) if t is r.dst_tensor]
            if [x[0] for x in r.overlap_region] != list(range(len(r.overlap_region))):
                notes.append("overlap_region dims are not 0..n-1 in order")
            regs.append([ii[0] if ii else -1, [[x[1], x[2], x[3]] for x in r.overlap_region]])
        reqs.append([j, regs])
        greqs.append([j, (locs or {}).get(rr.path, -1), [] if rr.byte_range is None else [int(rr.byte_range[0]), int(rr.byte_range[1])],
                      [[i, [[int(v) for v in x] for x in r.overlap_region]] for (i, _), r in zip(regs, c.overlapping_regions)]])
    # consume in a shuffled order (the read pipeline completes requests in any order) ---------
    order = list(range(len(rrs)))
    random.Random(order_seed).shuffle(order)
    try:
        for k in order:
            rr = rrs[k]
            buf = store[rr.path]
            if rr.byte_range is not None:
                buf = buf[rr.byte_range[0]:rr.byte_range[1]]
            loop.run_until_complete(rr.buffer_consumer.consume_buffer(buf))
    except Exception as e:
        raise C08Raised("consume_buffer", e)
    final = [C08_ids(t) for t in dst_tensors]
    return {"reqs": reqs, "greqs": greqs, "final": final, "dst_boxes": dst_boxes, "inits": inits, "gshape": gshape,
            "tshape": tshape, "out_shape": out_shape, "notes": notes}


# --------------------------------------------------------------------------- the oracle (the property itself)
def C08_oracle(case, saved_boxes_truth, obs, value_at):
    """saved_boxes_truth: the boxes that WERE saved (input of the scenario, not an output of the code);
    value_at(g) -> saved element id.  Demands exactly: every destination element covered by a saved box holds the
    saved value, every other one its initial value; every saved shard meeting a destination shard is read exactly
    once and no other is read."""
    fails = []
    dk = case["dst"]["kind"]
    for k, (box, init, fin) in enumerate(zip(obs["dst_boxes"], obs["inits"], obs["final"])):
        for i, c in enumerate(C08_coords(box[1])):
            g = [o + x for o, x in zip(box[0], c)]
            covered = any(C08_in_box(b, g) for b in saved_boxes_truth)
            if covered:
                exp = value_at(g)
                if fin[i] != exp:
                    fails.append(Failure(f"C08:covered-element-wrong:dst={dk}",
                                         f"destination shard {k} {box} local {list(c)} (global {g}) holds {fin[i]}, "
                                         f"saved value is {exp}", case))
                    break
            elif dk != "none" and fin[i] != init[i]:
                fails.append(Failure(f"C08:uncovered-element-modified:dst={dk}",
                                     f"destination shard {k} {box} local {list(c)} (global {g}) is outside every saved "
                                     f"shard but changed {init[i]} -> {fin[i]}", case))
                break
    if dk == "none":
        exp_shape = [max(b[0][d] + b[1][d] for b in saved_boxes_truth) for d in range(len(saved_boxes_truth[0][0]))]
        got_shape = obs["dst_boxes"][0][1] if obs["dst_boxes"] else None
        if got_shape != exp_shape:
            fails.append(Failure("C08:obj_out-none-wrong-shape",
                                 f"obj_out=None produced shape {got_shape}, saved global shape is {exp_shape}", case))
    return fails


def C08_plan_oracle(case, entry_boxes, obs):
    """each needed saved shard read exactly once (w.r.t. the shards listed in the entry handed to prepare_read)"""
    fails = []
    read = [r[0] for r in obs["reqs"]]
    needed = [j for j, sb in enumerate(entry_boxes)
              if any(all(max(sb[0][d], db[0][d]) < min(sb[0][d] + sb[1][d], db[0][d] + db[1][d]) for d in range(len(sb[0])))
                     for db in obs["dst_boxes"])]
    if sorted(read) != needed or len(set(read)) != len(read):
        fails.append(Failure(f"C08:read-plan-not-exactly-the-needed-shards-once:dst={case['dst']['kind']}",
                             f"saved shards read {read}; shards intersecting a destination shard {needed}", case))
    return fails


# --------------------------------------------------------------------------- Coq terms
def C08_boxdata_term(off, sz, ids):
    return f"(({term(list(off))}, {term(list(sz))}), {term(list(ids))})"


def C08_saved_term(off, sz, key, ids):
    return f"((({term(list(off))}, {term(list(sz))}), {term(list(key))}), {term(list(ids))})"


def C08_read_term(saved, dst_boxes, inits):
    s = "[" + "; ".join(C08_saved_term(*x) for x in saved) + "]"
    d = "[" + "; ".join(C08_boxdata_term(b[0], b[1], ini) for b, ini in zip(dst_boxes, inits)) + "]"
    return f"({s}, {d})"


def C08_read_val(obs):
    reqs = [[j, [[i, reg] for i, reg in regs]] for j, regs in obs["reqs"]]
    return val([reqs, obs["final"], obs["final"], [obs["gshape"]], [obs["tshape"]]])


def C08_read_gen_term(saved, obs, dense):
    return f"(({C08_read_term(saved, obs['dst_boxes'], obs['inits'])}, {term(list(obs['out_shape']))}), {'true' if dense else 'false'})"


def C08_read_gen_val(obs):
    return val([[obs["greqs"]], [obs["final"]], [obs["gshape"]], [obs["tshape"]]])


# --------------------------------------------------------------------------- case generation
def C08_thresholds(rng, case_boxes, esize, shape):
    """max-shard-size overrides: one element, at / one below / one above the slice size of a shard along each dim
    (prepare_write subdivides along dim 0 or along the dim of the ChunkShardingSpec torch infers), multiples, whole"""
    b = rng.choice(case_boxes)
    total = C08_numel(shape) * esize
    out = [1, esize, total, total + 1, 512 * 1024 * 1024]
    for d in range(len(shape)):
        slice_sz = C08_numel(b[1]) // b[1][d] * esize
        out += [max(1, slice_sz - 1), slice_sz, slice_sz + 1, 2 * slice_sz, max(1, 2 * slice_sz - 1), 3 * slice_sz]
    return out


def C08_dst_shape(rng, shape):
    r = rng.random()
    if r < 0.55:
        return list(shape)
    return [max(1, min(6, e + rng.choice([-2, -1, 0, 1, 1]))) for e in shape]


def C08_random_case(rng, i):
    nd = rng.choice([1, 2, 2, 3])
    shape = [rng.randint(1, 5) for _ in range(nd)]
    if rng.random() < 0.15:
        shape[rng.randrange(nd)] = 1
    dtype = DTYPES[i % len(DTYPES)]
    src_boxes = C08_grid_boxes([C08_random_cuts(rng, e) for e in shape])
    rng.shuffle(src_boxes)
    max_bytes = rng.choice(C08_thresholds(rng, src_boxes, ESIZE[dtype], shape))
    r = i % 4
    if r in (0, 1):
        dshape = C08_dst_shape(rng, shape)
        boxes = C08_grid_boxes([C08_random_cuts(rng, e) for e in dshape])
        rng.shuffle(boxes)
        dst = {"kind": "sharded", "shape": dshape, "boxes": boxes}
    elif r == 2:
        dst = {"kind": "dense", "shape": C08_dst_shape(rng, shape), "noncontig": rng.random() < 0.3}
    else:
        dst = {"kind": "none"}
    return {"kind": "e2e", "shape": shape, "dtype": dtype, "src_boxes": src_boxes, "max_bytes": max_bytes, "dst": dst,
            "order_seed": rng.randrange(1 << 30)}


def C08_exhaustive_cases(rng):
    cases = []
    shapes = [[1], [2], [3], [4], [5], [3, 3], [4, 2], [2, 4], [1, 3], [2, 2, 2], [4, 3], [3, 4], [4, 4], [2, 2, 3], [3, 2, 2]]
    k = 0
    for shape in shapes:
        parts = [C08_grid_boxes(list(c)) for c in itertools.product(*[C08_all_cuts(e) for e in shape])]
        for sp in parts:
            esz_total = C08_numel(shape)
            for dp in parts:
                dtype = DTYPES[k % len(DTYPES)]
                es = ESIZE[dtype]
                slice_sz = C08_numel(sp[0][1]) // sp[0][1][0] * es
                for mb in sorted({es, slice_sz + 1, esz_total * es}):
                    k += 1
                    cases.append({"kind": "e2e", "shape": shape, "dtype": dtype, "src_boxes": sp, "max_bytes": mb,
                                  "dst": {"kind": "sharded", "shape": shape, "boxes": dp}, "order_seed": k})
            for dst in ({"kind": "dense", "shape": shape}, {"kind": "none"},
                        {"kind": "dense", "shape": [e + 1 for e in shape]},
                        {"kind": "dense", "shape": [max(1, e - 1) for e in shape], "noncontig": True}):
                k += 1
                dtype = DTYPES[k % len(DTYPES)]
                cases.append({"kind": "e2e", "shape": shape, "dtype": dtype, "src_boxes": sp,
                              "max_bytes": ESIZE[dtype] * (1 + k % 3), "dst": dst, "order_seed": k})
    return cases


def C08_synthetic_case(rng, i):
    nd = rng.choice([1, 2, 2, 3])
    shape = [rng.randint(1, 5) for _ in range(nd)]
    dtype = DTYPES[i % len(DTYPES)]
    boxes = C08_guillotine(rng, ([0] * nd, list(shape)), rng.randint(1, 4))
    holes = i % 5 == 4 and len(boxes) > 1
    if holes:
        drop = rng.randrange(len(boxes))
        boxes = [b for j, b in enumerate(boxes) if j != drop]
    rng.shuffle(boxes)
    world = rng.randint(1, 4)
    ranks = [rng.randrange(world) for _ in boxes]            # any placement of shards on ranks
    nslabs = rng.randint(1, max(1, len(boxes)))
    slabs = [rng.randrange(nslabs) if rng.random() < 0.6 else None for _ in boxes]
    merged = i % 2 == 0
    r = i % 3
    if r == 0 or holes:
        dshape = C08_dst_shape(rng, shape)
        dboxes = C08_guillotine(rng, ([0] * nd, list(dshape)), rng.randint(0, 3))
        rng.shuffle(dboxes)
        dst = {"kind": "sharded", "shape": dshape, "boxes": dboxes}
    elif r == 1:
        dst = {"kind": "dense", "shape": C08_dst_shape(rng, shape), "noncontig": rng.random() < 0.3}
    else:
        dst = {"kind": "none"}
    return {"kind": "synthetic", "shape": shape, "dtype": dtype, "boxes": boxes, "ranks": ranks, "world": world,
            "slabs": slabs, "merged": merged, "dst": dst, "order_seed": rng.randrange(1 << 30)}


def C08_build_synthetic(case):
    """hand-made per-rank ShardedTensorEntry lists + store. Returns (rank entries, store)."""
    from torchsnapshot.manifest import Shard, ShardedTensorEntry, TensorEntry
    from torchsnapshot.serialization import tensor_as_memoryview

    G = C08_global(case["shape"], case["dtype"])
    store = {}
    per_rank = [[] for _ in range(case["world"])]
    for j, (b, rk, slab) in enumerate(zip(case["boxes"], case["ranks"], case["slabs"])):
        raw = bytes(tensor_as_memoryview(C08_slice(G, b)))
        if slab is None:
            loc, br = f"{rk}/sharded/x_" + "_".join(str(o) for o in b[0]), None
            store[loc] = raw
        else:
            loc = f"{rk}/batched/slab{slab}"
            lo = len(store.get(loc, b""))
            store[loc] = store.get(loc, b"") + raw
            br = [lo, lo + len(raw)]
        te = TensorEntry(location=loc, serializer="buffer_protocol", dtype="torch." + case["dtype"], shape=list(b[1]),
                         replicated=False, byte_range=br)
        per_rank[rk].append(Shard(offsets=list(b[0]), sizes=list(b[1]), tensor=te))
    return [ShardedTensorEntry(shards=s) for s in per_rank], store


# --------------------------------------------------------------------------- one case through everything
def C08_run_case(case, loop):
    """Runs the real code on one case. Returns (failures, coq_write or None, coq_read or None, coq_merge or None,
    nontrivial, notes, coq_read_gen or None)."""
    from torchsnapshot.manifest import ShardedTensorEntry
    from torchsnapshot.manifest_ops import _get_merged_sharded_tensor_entries

    fails = []
    coq_write = coq_merge = None
    dtype = case["dtype"]
    shape = case["shape"]
    try:
        if case["kind"] == "e2e":
            entry, store, sdim = C08_write_phase(case, loop)
            saved, locs = C08_saved_obs(entry, store, dtype)
            truth = [([0] * len(shape), list(shape))]        # the source sharded tensor covers its whole index space
            # write oracle: the saved shards are a partition of the index space holding G restricted
            cover = {}
            for off, sz, _k, ids in saved:
                exp = [C08_gid(shape, [o + x for o, x in zip(off, c)]) for c in C08_coords(sz)]
                if ids != exp:
                    fails.append(Failure("C08:saved-shard-content-wrong",
                                         f"saved shard offsets={off} sizes={sz} staged ids {ids}, expected {exp}", case))
                    break
                for c in C08_coords(sz):
                    g = tuple(o + x for o, x in zip(off, c))
                    cover[g] = cover.get(g, 0) + 1
            if not fails and (sorted(cover) != sorted(C08_coords(shape)) or any(v != 1 for v in cover.values())):
                fails.append(Failure("C08:saved-shards-not-a-partition",
                                     f"saved boxes {[(s[0], s[1]) for s in saved]} do not tile shape {shape} exactly once", case))
            locals_t = "[" + "; ".join(
                C08_boxdata_term(b[0], b[1], [C08_gid(shape, [o + x for o, x in zip(b[0], c)]) for c in C08_coords(b[1])])
                for b in case["src_boxes"]) + "]"
            coq_write = (f"((({term(Nat(sdim))}, {term(ESIZE[dtype])}), {term(case['max_bytes'])}), {locals_t})",
                         val([[[s[0], s[1]], s[3] if s[3] is not None else [BAD_ID]] for s in saved]))
        else:
            rank_entries, store = C08_build_synthetic(case)
            truth = [(list(b[0]), list(b[1])) for b in case["boxes"]]
            if case["merged"]:
                manifests = [{"x": e} if e.shards else {} for e in rank_entries]
                entry = _get_merged_sharded_tensor_entries(manifests)["x"]
            else:
                entry = ShardedTensorEntry(shards=[s for e in rank_entries for s in e.shards])
            saved, locs = C08_saved_obs(entry, store, dtype)
            if case["merged"]:
                # keys local to the merge observation: index of the shard in rank-major input order
                flat = [s for e in rank_entries for s in e.shards]
                inp = "[" + "; ".join(
                    "[" + "; ".join(f"(({term(list(s.offsets))}, {term(list(s.sizes))}), {term([flat.index(s)])})"
                                    for s in e.shards) + "]" for e in rank_entries) + "]"
                coq_merge = (inp, val([[[i for i, f in enumerate(flat) if f is s][0]] for s in entry.shards]))
        if any(s[3] is None for s in saved):
            fails.append(Failure("C08:saved-shard-payload-size-wrong", "staged payload length differs from its entry", case))
            return fails, coq_write, None, coq_merge, False, [], None
        obs = C08_read_phase(entry, store, case["dst"], dtype, case["order_seed"], loop, locs)
    except C08Raised as e:
        fails.append(Failure(f"C08:raised:{e.stage}:{type(e.exc).__name__}", str(e)[:300], case))
        return fails, coq_write, None, coq_merge, False, [], None
    fails += C08_oracle(case, truth, obs, lambda g: C08_gid(shape, g))
    fails += C08_plan_oracle(case, [(s[0], s[1]) for s in saved], obs)
    coq_read = (C08_read_term(saved, obs["dst_boxes"], obs["inits"]), C08_read_val(obs))
    dense = case["dst"]["kind"] in ("dense", "none") and len(obs["dst_boxes"]) == 1
    shared = len({s[2][0] for s in saved}) < len(saved)
    coq_read_gen = (C08_read_gen_term(saved, obs, dense), C08_read_gen_val(obs), shared)
    nontrivial = any(f != i for fin, ini in zip(obs["final"], obs["inits"]) for f, i in zip(fin, ini))
    return fails, coq_write, coq_read, coq_merge, nontrivial, obs["notes"], coq_read_gen


def C08_case_summary(case):
    if case["kind"] == "e2e":
        return {"kind": "e2e", "shape": case["shape"], "dtype": case["dtype"], "n_src": len(case["src_boxes"]),
                "max_bytes": case["max_bytes"], "dst": case["dst"]["kind"], "dst_shape": case["dst"].get("shape"),
                "src_boxes": case["src_boxes"], "dst_boxes": case["dst"].get("boxes")}
    return {"kind": "synthetic", "shape": case["shape"], "dtype": case["dtype"], "boxes": case["boxes"],
            "ranks": case["ranks"], "slabs": case["slabs"], "merged": case["merged"], "dst": case["dst"]}


# --------------------------------------------------------------------------- overlap validation
def C08_overlap_pairs(ctx: Ctx):
    def boxes(nd, offs, szs):
        return [(list(o), list(s)) for o in itertools.product(offs, repeat=nd) for s in itertools.product(szs, repeat=nd)]
    one = boxes(1, range(4), range(4))
    two = boxes(2, range(3), range(3))
    pairs = [(a, b) for a in one for b in one] + [(a, b) for a in two for b in two]
    rng = ctx.rng
    for _ in range(ctx.n(300, 3000)):
        nd = rng.choice([3, 3, 4])
        pairs.append((([rng.randint(0, 4) for _ in range(nd)], [rng.randint(0, 4) for _ in range(nd)]),
                      ([rng.randint(0, 4) for _ in range(nd)], [rng.randint(0, 4) for _ in range(nd)])))
    return pairs


def C08_check_overlap(ctx: Ctx, res: Result, gen_ok: bool = False):
    from torch.distributed._shard.sharded_tensor import ShardMetadata
    from torch.distributed._shard.sharding_spec._internals import _check_shard_metadata_pair_overlap
    from torchsnapshot.io_preparers.sharded_tensor import ShardedTensorIOPreparer

    pairs = C08_overlap_pairs(ctx)
    where = CORRESPONDENCES[0]
    obs = []
    obs4 = []
    for a, b in pairs:
        ma = ShardMetadata(shard_offsets=list(a[0]), shard_sizes=list(a[1]), placement="cpu")
        mb = ShardMetadata(shard_offsets=list(b[0]), shard_sizes=list(b[1]), placement="cpu")
        ov = bool(_check_shard_metadata_pair_overlap(ma, mb))
        reg = ShardedTensorIOPreparer._shards_get_overlap_region_wrt_saved_tensor(saved_shard=ma, current_shard=mb)
        if [x[0] for x in reg] != list(range(len(a[0]))):
            res.mismatches.append(Mismatch(where, {"saved": a, "current": b}, reg, "dims not 0..n-1"))
        obs.append([ov, [[x[1], x[2], x[3]] for x in reg]])
        obs4.append([[int(v) for v in x] for x in reg])
        res.count("overlap.ndims", len(a[0]))
        res.count("overlap.result", ov)
    batch = 400
    cases = []
    for k in range(0, len(pairs), batch):
        inp = "[" + "; ".join(f"(({term(a[0])}, {term(a[1])}), ({term(b[0])}, {term(b[1])}))" for a, b in pairs[k:k + batch]) + "]"
        cases.append((inp, val(obs[k:k + batch])))
    model = "(fun l => VL (map (fun x => VL [obs_overlaps x; obs_region x]) l))"
    bad, errs = coqrun.run_cases("C08_ov", IMPORTS, model, cases, shard=8)
    for e in errs:
        res.mismatches.append(Mismatch(where, "coqc error", None, e))
    for bk in bad:
        sub = list(range(bk * batch, min(len(pairs), (bk + 1) * batch)))
        single = [(f"(({term(pairs[i][0][0])}, {term(pairs[i][0][1])}), ({term(pairs[i][1][0])}, {term(pairs[i][1][1])}))",
                   val(obs[i])) for i in sub]
        bad2, errs2 = coqrun.run_cases("C08_ov1", IMPORTS, "(fun x => VL [obs_overlaps x; obs_region x])", single)
        for i in bad2[:10]:
            res.mismatches.append(Mismatch(where, {"saved": pairs[sub[i]][0], "current": pairs[sub[i]][1]}, obs[sub[i]], None))
        if not bad2:
            res.mismatches.append(Mismatch(where, f"batch {bk}", None, None))
    res.traces_validated += len(pairs)
    if gen_ok:
        # the loop regenerated from the source, one pair per case (with the dimension numbers)
        where = CORRESPONDENCES[5]
        single = [(f"(({term(a[0])}, {term(a[1])}), ({term(b[0])}, {term(b[1])}))", val(o)) for (a, b), o in zip(pairs, obs4)]
        bad, errs = coqrun.run_cases("C08_ovg", GEN_IMPORTS, "obs_region_gen", single, shard=400)
        for e in errs:
            res.mismatches.append(Mismatch(where, "coqc error", None, e))
        for i in bad[:10]:
            res.mismatches.append(Mismatch(where, {"saved": pairs[i][0], "current": pairs[i][1]}, obs4[i], None))
        res.traces_validated += len(pairs)


# --------------------------------------------------------------------------- through the public API (take / read_object / restore)
class C08Env:
    """environment knobs of one scenario ({name: value or None}); restored on exit"""

    def __init__(self, k):
        self.k, self.saved = k, {}

    def __enter__(self):
        for name, envn in API_ENV.items():
            self.saved[envn] = os.environ.get(envn)
            v = self.k.get(name)
            if v is None or v is False:
                os.environ.pop(envn, None)
            else:
                os.environ[envn] = "1" if v is True else str(v)
        return self

    def __exit__(self, *a):
        for envn, v in self.saved.items():
            if v is None:
                os.environ.pop(envn, None)
            else:
                os.environ[envn] = v


def C08_api_scenario(rng, i):
    nd = rng.choice([1, 2, 2, 2, 3])
    shape = [rng.randint(2, 6) for _ in range(nd)]
    dtype = DTYPES[i % len(DTYPES)]
    for _ in range(20):
        src_boxes = C08_grid_boxes([C08_random_cuts(rng, e) for e in shape])
        if len(src_boxes) >= 2:
            break
    else:
        src_boxes = C08_grid_boxes([[0, 1, shape[0]]] + [[0, e] for e in shape[1:]])
    rng.shuffle(src_boxes)
    es = ESIZE[dtype]
    row = C08_numel(src_boxes[0][1]) // src_boxes[0][1][0] * es
    return {"kind": "api", "shape": shape, "dtype": dtype, "src_boxes": src_boxes,
            "maxshard": rng.choice([None, None, es, row, 2 * row]), "nobatch": rng.random() < 0.4,
            "slab": rng.choice([None, None, 40])}


def C08_api_ops(rng, scen):
    shape, es = scen["shape"], ESIZE[scen["dtype"]]
    shard_bytes = max(C08_numel(b[1]) for b in scen["src_boxes"]) * es
    mid = shard_bytes + shard_bytes // 2
    ops = []

    def sharded_dst(same_shape):
        dshape = list(shape) if same_shape else C08_dst_shape(rng, shape)
        for _ in range(20):
            boxes = C08_grid_boxes([C08_random_cuts(rng, e) for e in dshape])
            if boxes != sorted(scen["src_boxes"]) or len(boxes) == 1:
                break
        rng.shuffle(boxes)
        return {"kind": "sharded", "shape": dshape, "boxes": boxes}
    for b in (None, 1, mid, 10 ** 8):
        ops.append({"op": "read_object", "budget": b, "dst": sharded_dst(rng.random() < 0.7)})
        ops.append({"op": "read_object", "budget": b, "dst": {"kind": "dense", "shape": C08_dst_shape(rng, shape) if rng.random() < 0.3 else list(shape)}})
        ops.append({"op": "read_object", "budget": b, "dst": {"kind": "none"}})
    for b in (None, 1, mid):
        ops.append({"op": "restore", "budget": b, "dst": sharded_dst(True)})
    return ops


def C08_api_run(ctx: Ctx, scen, ops):
    """one Snapshot.take of the scenario's ShardedTensor, then every op on it.  Returns (failures, #ops that copied something)."""
    import torch
    from torch.distributed._shard.sharded_tensor import ShardedTensor
    from torchsnapshot import Snapshot, StateDict
    from lib.world import safe_gc

    shape, dtype = scen["shape"], scen["dtype"]
    fails, nontrivial = [], 0
    G = C08_global(shape, dtype)
    src = C08_make_sharded(scen["src_boxes"], shape, [C08_slice(G, b) for b in scen["src_boxes"]])
    truth = [([0] * len(shape), list(shape))]
    root = ctx.scratch("c08api")
    path = os.path.join(root, "snap")
    try:
        with C08Env({"maxshard": scen["maxshard"], "nobatch": scen["nobatch"], "slab": scen["slab"]}), safe_gc():
            try:
                Snapshot.take(path, {"state": StateDict({"foo": src})})
            except Exception as e:  # noqa
                return [Failure(f"C08:api:take-raised:{type(e).__name__}", f"Snapshot.take raised {type(e).__name__}: {str(e)[:200]}",
                                {**scen, "ops": ops[:1]})], 0
            for op in ops:
                case = {**scen, "ops": [op], "dst": op["dst"]}
                obj_out, dst_boxes, inits = C08_make_dst(op["dst"], dtype)
                try:
                    if op["op"] == "read_object":
                        got = Snapshot(path).read_object("0/state/foo", obj_out=obj_out, memory_budget_bytes=op["budget"])
                    else:
                        app = {"state": StateDict({"foo": obj_out})}
                        with C08Env({"maxshard": scen["maxshard"], "nobatch": scen["nobatch"], "slab": scen["slab"], "rank_budget": op["budget"]}):
                            Snapshot(path).restore(app)
                        got = app["state"]["foo"]
                except Exception as e:  # noqa
                    fails.append(Failure(f"C08:api:{op['op']}-raised:{type(e).__name__}:dst={op['dst']['kind']}",
                                         f"{op['op']}(budget={op['budget']}) into {op['dst']['kind']} raised {type(e).__name__}: {str(e)[:200]}", case))
                    continue
                if isinstance(got, ShardedTensor):
                    tensors = [s.tensor for s in got.local_shards()]
                    dst_boxes = [(list(s.metadata.shard_offsets), list(s.metadata.shard_sizes)) for s in got.local_shards()]
                    if inits is None or [len(x) for x in inits] != [C08_numel(b[1]) for b in dst_boxes]:
                        inits = [[-1] * C08_numel(b[1]) for b in dst_boxes]
                    elif obj_out is not None and isinstance(obj_out, ShardedTensor):
                        # initial sentinels in the order of local_shards()
                        by_box = {(tuple(b[0]), tuple(b[1])): ini for b, ini in zip(op["dst"]["boxes"], inits)}
                        inits = [by_box.get((tuple(b[0]), tuple(b[1])), [-1] * C08_numel(b[1])) for b in dst_boxes]
                elif isinstance(got, torch.Tensor):
                    tensors = [got]
                    dst_boxes = [([0] * got.dim(), list(got.shape))]
                    if inits is None or len(inits[0]) != got.numel():
                        inits = [[-1] * got.numel()]
                else:
                    fails.append(Failure(f"C08:api:{op['op']}-returned-{type(got).__name__}",
                                         f"{op['op']} into {op['dst']['kind']} returned a {type(got).__name__}", case))
                    continue
                obs = {"dst_boxes": dst_boxes, "inits": inits, "final": [C08_ids(x) for x in tensors]}
                fs = C08_oracle(case, truth, obs, lambda g: C08_gid(shape, g))
                for f in fs:
                    f.signature = f.signature.replace("C08:", f"C08:api:{op['op']}:", 1)
                    f.what = f"{op['op']}(budget={op['budget']}, max_shard={scen['maxshard']}, nobatch={scen['nobatch']}): " + f.what
                fails += fs
                nontrivial += any(f != i for fin, ini in zip(obs["final"], inits) for f, i in zip(fin, ini))
    finally:
        shutil.rmtree(root, ignore_errors=True)
    return fails, nontrivial


def C08_api_sweep(ctx: Ctx, res: Result):
    rng = ctx.rng
    for i in range(ctx.n(8, 40)):
        scen = C08_api_scenario(rng, i)
        ops = C08_api_ops(rng, scen)
        fails, _ = C08_api_run(ctx, scen, ops)
        res.failures += fails
        for op in ops:
            res.case({"kind": "api", "shape": scen["shape"], "dtype": scen["dtype"], "src_boxes": scen["src_boxes"],
                      "maxshard": scen["maxshard"], "nobatch": scen["nobatch"], "slab": scen["slab"], "op": op["op"],
                      "budget": op["budget"], "dst": op["dst"]}, True)
            res.count("api.op", op["op"])
            res.count("api.budget", "none" if op["budget"] is None else "1" if op["budget"] == 1 else "large" if op["budget"] >= 10 ** 8 else "1.5 shards")
            res.count("api.dst", op["dst"]["kind"])
        res.count("api.n_src_shards", len(scen["src_boxes"]))
        res.count("api.max_shard", "none" if scen["maxshard"] is None else "set")
        res.count("api.batching", "off" if scen["nobatch"] else "on")


def C08_dtensor_sweep(ctx: Ctx, res: Result):
    """io_preparers/dtensor.py (an anchor of C08): a DTensor sharded over a 1-rank CPU mesh along dim 0 or 1, saved with a
    small max-shard-size knob (several pieces) with batching on (pieces share a slab) or off, then read_object into None /
    a dense tensor under several budgets and restore into a DTensor of the same placement; oracle: the saved global
    tensor.  Must be called inside C08Group.  Fully replicated DTensors are left out (the library raises KeyError for them
    in _get_manifest_for_existing_rank on a 1-rank job: noted in DESIGN.md, outside this property)."""
    import torch
    from lib.world import safe_gc
    from torchsnapshot import Snapshot, StateDict
    try:
        from torch.distributed._tensor import DeviceMesh, distribute_tensor, Shard as DShard
        mesh = DeviceMesh("cpu", [0])
    except Exception as e:  # noqa
        res.notes.append(f"dtensor sweep skipped: {type(e).__name__}: {str(e)[:100]}")
        return
    rng = ctx.rng
    for i in range(ctx.n(6, 30)):
        rows, cols = rng.choice([(8, 4), (6, 3), (4, 8), (5, 2), (16, 2)])
        dim = rng.choice([0, 1])
        dtype = rng.choice([torch.float32, torch.int64])
        G = torch.arange(rows * cols).reshape(rows, cols).to(dtype)
        es = G.element_size()
        slice_bytes = (G.numel() // G.shape[dim]) * es
        maxshard = rng.choice([None, 1, slice_bytes, 2 * slice_bytes, 3 * slice_bytes])
        nobatch = rng.random() < 0.3
        env = {"TORCHSNAPSHOT_MAX_SHARD_SIZE_BYTES_OVERRIDE": None if maxshard is None else str(maxshard),
               "TORCHSNAPSHOT_DISABLE_BATCHING": "1" if nobatch else None}
        saved = {k: os.environ.get(k) for k in env}
        root = ctx.scratch("c08dt")
        replay = {"kind": "dtensor", "rows": rows, "cols": cols, "dim": dim, "dtype": str(dtype), "maxshard": maxshard, "nobatch": nobatch}
        try:
            for k, v in env.items():
                if v is None:
                    os.environ.pop(k, None)
                else:
                    os.environ[k] = v
            with safe_gc():
                try:
                    dt = distribute_tensor(G.clone(), mesh, [DShard(dim)])
                    Snapshot.take(os.path.join(root, "s"), {"m": StateDict({"w": dt})})
                    snap = Snapshot(os.path.join(root, "s"))
                    for budget in (None, 1, max(1, slice_bytes + slice_bytes // 2)):
                        for kind in ("dtensor",):          # a DTensorEntry can only be read into a runtime DTensor
                            out = distribute_tensor(torch.full((rows, cols), -1).to(dtype), mesh, [DShard(dim)])
                            got = snap.read_object("0/m/w", obj_out=out, memory_budget_bytes=budget)
                            got = got.to_local() if hasattr(got, "to_local") else got
                            res.case(dict(replay, op="read_object", budget=budget, dst=kind), True)
                            res.count("dtensor.op", "read_object")
                            if list(got.shape) != [rows, cols] or not torch.equal(got, G):
                                res.failures.append(Failure("C08:dtensor:read_object-differs",
                                                            f"DTensor {rows}x{cols} Shard({dim}) max_shard={maxshard} nobatch={nobatch}: read_object(budget={budget}, dst={kind}) "
                                                            f"returned shape {list(got.shape)} with {int((got != G).sum()) if list(got.shape) == [rows, cols] else '?'} wrong elements", dict(replay, budget=budget, dst=kind)))
                    tgt = distribute_tensor(torch.full((rows, cols), -1).to(dtype), mesh, [DShard(dim)])
                    st = {"m": StateDict({"w": tgt})}
                    snap.restore(st)
                    back = st["m"]["w"]
                    back = back.to_local() if hasattr(back, "to_local") else back
                    res.case(dict(replay, op="restore"), True)
                    res.count("dtensor.op", "restore")
                    if not torch.equal(back, G):
                        res.failures.append(Failure("C08:dtensor:restore-differs", f"DTensor {rows}x{cols} Shard({dim}) max_shard={maxshard} nobatch={nobatch}: restore left {int((back != G).sum())} wrong elements", replay))
                except Exception as e:  # noqa
                    res.failures.append(Failure(f"C08:dtensor:raised:{type(e).__name__}", f"DTensor {rows}x{cols} Shard({dim}) max_shard={maxshard} nobatch={nobatch}: {type(e).__name__}: {str(e)[:160]}", replay))
        finally:
            for k, v in saved.items():
                if v is None:
                    os.environ.pop(k, None)
                else:
                    os.environ[k] = v
            shutil.rmtree(root, ignore_errors=True)


# --------------------------------------------------------------------------- driver
def C08_cases(ctx: Ctx):
    rng = ctx.rng
    cases = []
    # fixed corpus: the design's non-vacuity example and boundary shapes
    grid57 = C08_grid_boxes([[0, 2, 5], [0, 3, 4, 7]])
    for mb, dst in ((20, {"kind": "sharded", "shape": [5, 7], "boxes": C08_grid_boxes([[0, 1, 4, 5], [0, 5, 7]])}),
                    (28, {"kind": "dense", "shape": [4, 9]}), (8, {"kind": "none"}),
                    (1, {"kind": "dense", "shape": [5, 7], "noncontig": True})):
        cases.append({"kind": "e2e", "shape": [5, 7], "dtype": "float32", "src_boxes": grid57, "max_bytes": mb,
                      "dst": dst, "order_seed": 1})
    for shape in ([1], [1, 1], [1, 1, 1], [5], [1, 5], [5, 1]):
        for dt in ("uint8", "bfloat16"):
            boxes = C08_grid_boxes([[0] + list(range(1, e)) + [e] if e <= 3 else [0, 1, e - 1, e] for e in shape])
            cases.append({"kind": "e2e", "shape": shape, "dtype": dt, "src_boxes": boxes, "max_bytes": ESIZE[dt],
                          "dst": {"kind": "sharded", "shape": shape, "boxes": C08_grid_boxes([[0, e] for e in shape])},
                          "order_seed": 2})
    for i in range(ctx.n(500, 3000)):
        cases.append(C08_random_case(rng, i))
    for i in range(ctx.n(220, 1200)):
        cases.append(C08_synthetic_case(rng, i))
    if ctx.thorough:
        cases += C08_exhaustive_cases(rng)
    return cases


def C08_quiet():
    import logging
    logging.getLogger("torchsnapshot.io_preparers.sharded_tensor").setLevel(logging.ERROR)
    logging.getLogger("torchsnapshot.snapshot").setLevel(logging.ERROR)


def C08_gen_model(res: Result) -> bool:
    """build the model over the generated terms (it must run even when an instantiation lemma no longer checks)"""
    ok, out, _ = coqrun.make(["model/ReshardGenObs.vo"])
    if not ok:
        res.mismatches.append(Mismatch(CORRESPONDENCES[4], "make model/ReshardGenObs.vo", None,
                                       f"{coqrun.failing_file(out)}: {coqrun.error_excerpt(out, 12)}"))
    return ok


def correspond(ctx: Ctx) -> Result:
    C08_quiet()
    res = Result(rule=RULE)
    res.exhaustive = ctx.thorough
    gen_ok = C08_gen_model(res)
    with C08Group(ctx):
        C08_check_overlap(ctx, res, gen_ok)
        cases = C08_cases(ctx)
        loop = asyncio.new_event_loop()
        cw, cr, cm, cg = [], [], [], []
        try:
            for case in cases:
                fails, w, r, m, nontrivial, notes, g = C08_run_case(case, loop)
                res.failures += fails
                res.case(C08_case_summary(case), nontrivial)
                res.count("case.kind", case["kind"])
                res.count("case.ndims", len(case["shape"]))
                res.count("case.numel", C08_numel(case["shape"]))
                res.count("case.dtype", case["dtype"])
                res.count("case.dst", case["dst"]["kind"])
                if case["kind"] == "e2e":
                    res.count("case.n_src_shards", len(case["src_boxes"]))
                    b0 = case["src_boxes"][0]
                    rowb = C08_numel(b0[1]) // b0[1][0] * ESIZE[case["dtype"]]
                    res.count("case.max_bytes_vs_row_of_first_shard",
                              "below" if case["max_bytes"] < rowb else "equal" if case["max_bytes"] == rowb else "above")
                    res.count("case.dst_same_shape", case["dst"].get("shape", case["shape"]) == case["shape"])
                for n in notes:
                    res.mismatches.append(Mismatch(CORRESPONDENCES[2], C08_case_summary(case), n, None))
                if w is not None:
                    cw.append((w, case))
                if r is not None:
                    cr.append((r, case))
                if m is not None:
                    cm.append((m, case))
                if g is not None:
                    cg.append((g[:2], case))
                    res.count("case.saved_shards_share_a_location", g[2])
        finally:
            loop.close()
        C08_api_sweep(ctx, res)
        C08_dtensor_sweep(ctx, res)
    runs = [("C08_w", CORRESPONDENCES[1], IMPORTS, "obs_write", cw), ("C08_r", CORRESPONDENCES[2], IMPORTS, "obs_read", cr),
            ("C08_m", CORRESPONDENCES[3], IMPORTS, "obs_merge", cm)]
    if gen_ok:
        runs += [("C08_wg", CORRESPONDENCES[6], GEN_IMPORTS, "obs_write_gen", cw),
                 ("C08_rg", CORRESPONDENCES[7], GEN_IMPORTS, "obs_read_gen", cg)]
    for tag, where, imports, fn, lst in runs:
        bad, errs = coqrun.run_cases(tag, imports, fn, [x[0] for x in lst], shard=250)
        for e in errs:
            res.mismatches.append(Mismatch(where, "coqc error", None, e))
        for i in bad[:20]:
            res.mismatches.append(Mismatch(where, C08_case_summary(lst[i][1]), lst[i][0][1][:1500], None))
        res.traces_validated += len(lst)
    return res


def replay(ctx: Ctx, data):
    C08_quiet()
    with C08Group(ctx):
        if data.get("kind") == "api":
            fails, _ = C08_api_run(ctx, data, data["ops"])
            return fails[0] if fails else None
        loop = asyncio.new_event_loop()
        try:
            fails, *_ = C08_run_case(data, loop)
        finally:
            loop.close()
    return fails[0] if fails else None


MANIFEST = {
    "level_text": ("Machine-checked proof (Coq 8.16.1) about terms REGENERATED FROM THE SOURCE on every run "
                   "(translator/gen_reshard.py, Python ast -> Gallina, fail closed: the loop of "
                   "_shards_get_overlap_region_wrt_saved_tensor with the order of its zipped lists and of the appended tuple, "
                   "_OverlappingRegion.get_views, the copy of consume_buffer, both loops of prepare_read - loop nest, skip "
                   "conditions, the dictionary key at the insertion / membership / lookup sites, the saved/current argument "
                   "order, the ReadReq fields -, _get_global_shape, _validate_shape, ShardedTensorEntry.get_tensor_shape, the "
                   "piece construction of subdivide_shard; translator/gen_chunk.py for its arithmetic). Instantiation lemmas "
                   "(coq/proofs/ReshardInst.v, semantic where cheap) show the generated terms equal the hand-written model, and "
                   "the property theorems are restated over the generated terms: for any number of dimensions and any boxes the "
                   "generated region is exactly the intersection; the generated prepare_read executed with the generated "
                   "consumers on pairwise-disjoint saved shards with distinct (location, byte_range) writes every destination "
                   "element (sharded or dense, any shape) from the unique saved shard containing it and leaves all others "
                   "untouched, independently of the order of the saved shards; every needed saved shard is read exactly once "
                   "under its own path and byte range; subdivision preserves the disjoint cover; both global-shape "
                   "computations return the shape of a partition. What stays hand-modelled (tensors, views, narrow/copy_, the "
                   "overlap test of torch, the store) is tied to the code on every run by differential execution: real "
                   "ShardedTensors (world-size-1 gloo group), the real prepare_write / prepare_read / consumers over an "
                   "in-memory store, compared element by element with the property oracle and with BOTH the generated terms "
                   "and the hand model evaluated inside coqc (vm_compute)."),
    "level_note": ("Trusted: Coq kernel + VM; the translators gen_reshard.py / gen_chunk.py; the hand-written vocabulary of "
                   "coq/model/Reshard.v (tensors as functions, views as offset+shape, torch.narrow, Tensor.copy_, the store "
                   "lookup, torch's _check_shard_metadata_pair_overlap - validated exhaustively on small boxes every run) and "
                   "the differential harness. Not translated: prepare_write around subdivide_shard, the dispatch on "
                   "type(obj_out), deserialisation, the merge of per-rank entries (all covered by the correspondences). DTensor "
                   "placement arithmetic is torch's and is not modelled. Theorems are closed under the global context (no axioms)."),
    "technique": "Coq proof over terms translated from the Python source on every run (instantiation lemmas + per-dimension "
                 "interval arithmetic lifted to n-D boxes, fold invariants, permutation invariance) with vm_compute "
                 "correspondence of the generated terms and of the hand model against the real preparers",
    "design_ref": "DESIGN.md section 5, C08",
}
