"""C01 - Take then restore reproduces the application state exactly."""
from __future__ import annotations

import collections
import os
import shutil

from lib import coqrun
from lib.core import Ctx, Failure, Mismatch, Result
from lib.tocoq import term, val
from lib.world import safe_gc
from props import state_gen as sg

PROP = "C01"
PROPS_FILE = "props/C01.v"
GEN: list[str] = []
CORRESPONDENCES = ["prepare_write-pieces~model", "restore(take(x))-bit-exact:sampled-product"]
RULE = ("the product structure x leaf kinds x 12 dtypes x shapes (scalar, zero-length, odd counts) x layouts (contiguous, "
        "transposed, strided, offset, broadcast) x knobs (chunk bytes {1,7,16,64,default}, slab threshold {1,9,40,default}, "
        "batching on/off, budget {1,50,large}, io concurrency {1,2,16}) x restore targets (in-place, None, wrong shape) x "
        "non-empty subsets of the stateful keys, sampled on the real Snapshot.take / restore with bit-exact comparison; "
        "and the staged pieces of every tensor compared with the Coq model. Non-trivial = state holds a tensor with > 0 "
        "elements; distinct by (state spec, knobs, target mode, key subset).")
TRUSTED = [
    "Coq 8.16.1 kernel and vm_compute; theorems closed under the global context",
    "the end-to-end statement is a composition: containers (C15), metadata (C14), tensor bits (C17), planning (C16), "
    "pipelines (C11), manifest view (C07), locations (C05) are proved under their own properties; C01's own theorems compose "
    "the tensor data path (chunk -> slab -> store -> read -> reassemble) at the byte level",
    "torch.save / torch.load for objects and torch_save dtypes: oracle pair (load (save x) = x), exercised here",
]
ASSUMPTIONS = [
    "storage locations are distinct (C05's hypotheses no_suffix_clash / no_empty_component; its known findings are the exceptions)",
    "objects survive torch.save/torch.load (this torch loads with weights_only: only allow-listed types are generated)",
]
IMPORTS = "From TS Require Import model.Pipeline.\n"
KNOB_ENV = {"chunk": "TORCHSNAPSHOT_MAX_CHUNK_SIZE_BYTES_OVERRIDE", "slab": "TORCHSNAPSHOT_SLAB_SIZE_THRESHOLD_BYTES_OVERRIDE",
            "nobatch": "TORCHSNAPSHOT_DISABLE_BATCHING", "budget": "TORCHSNAPSHOT_PER_RANK_MEMORY_BUDGET_BYTES",
            "conc": "TORCHSNAPSHOT_MAX_PER_RANK_IO_CONCURRENCY_OVERRIDE"}


class Knobs:
    def __init__(self, k):
        self.k, self.saved = k, {}

    def __enter__(self):
        for name, envn in KNOB_ENV.items():
            self.saved[envn] = os.environ.get(envn)
            v = self.k.get(name)
            if v is None or v is False:
                os.environ.pop(envn, None)
            else:
                os.environ[envn] = "1" if v is True else str(v)

    def __exit__(self, *a):
        for envn, v in self.saved.items():
            if v is None:
                os.environ.pop(envn, None)
            else:
                os.environ[envn] = v


def gen_knobs(rng):
    return {"chunk": rng.choice([None, 1, 7, 16, 64]), "slab": rng.choice([None, 1, 9, 40]), "nobatch": rng.random() < 0.4,
            "budget": rng.choice([1, 50, 100000000]), "conc": rng.choice([1, 2, 16])}


def gen_app(rng):
    """app_state spec: {stateful key: dict-like spec}"""
    nkeys = rng.randint(1, 3)
    keys = rng.sample(["model", "optim", "x/y", "progress", "ü"], nkeys)
    app = {}
    for k in keys:
        s = sg.gen_struct(rng, 0)
        while s[0] not in ("dict", "odict"):
            s = sg.gen_struct(rng, 0)
        # StateDict keys must be usable by UserDict.update: any hashable
        app[k] = s
    return app


def has_tensor_elems(x):
    import torch
    if isinstance(x, torch.Tensor):
        return x.numel() > 0
    if isinstance(x, dict):
        return any(has_tensor_elems(v) for v in x.values())
    if isinstance(x, list):
        return any(has_tensor_elems(v) for v in x)
    return False


def take_restore(ctx, app_spec, knobs, mode, subset, res, tag):
    from torchsnapshot import Snapshot, StateDict
    root = ctx.scratch("c01")
    path = os.path.join(root, "snap")
    saved = {k: sg.build(s, None) for k, s in app_spec.items()}
    expect = {k: sg.build(s, None) for k, s in app_spec.items()}          # independent copy of the same bits
    replay = {"app": app_spec, "knobs": knobs, "mode": mode, "subset": subset}
    try:
        with Knobs(knobs), safe_gc():
            try:
                Snapshot.take(path, {k: StateDict(v) for k, v in saved.items()})
            except Exception as e:  # noqa
                res.failures.append(Failure(f"C01:take-raised:{type(e).__name__}", f"take raised {type(e).__name__}: {str(e)[:200]} [{tag}]", replay))
                return None
            # take must not have modified the state it saved
            for k in saved:
                d = sg.equal_exact(saved[k], expect[k], k)
                if d:
                    res.failures.append(Failure("C01:take-modified-state", f"take changed the application state: {d} [{tag}]", replay))
            targets = {}
            for k in subset:
                blank = sg.blank_like(saved[k], mode, ctx.rng)
                targets[k] = StateDict(blank if mode != "none" else {})
            try:
                Snapshot(path).restore(targets)
            except Exception as e:  # noqa
                res.failures.append(Failure(f"C01:restore-raised:{type(e).__name__}", f"restore raised {type(e).__name__}: {str(e)[:200]} [{tag}]", replay))
                return path
            for k in subset:
                got = targets[k].data          # UserDict.data: a plain dict updated with the restored state dict
                exp = expect[k]
                d = None
                if [(type(x), x) for x in got.keys()] != [(type(x), x) for x in exp.keys()]:
                    d = f"{k}: top-level keys/order {list(got.keys())!r} vs {list(exp.keys())!r}"
                else:
                    for kk in exp:
                        d = d or sg.equal_exact(got[kk], exp[kk], f"{k}/{kk!r}")
                if d:
                    res.failures.append(Failure(f"C01:restored-state-differs:{mode}", f"restored state differs: {d} [{tag}]", replay))
        return path
    finally:
        pass


def check_pieces(ctx, res):
    """prepare_write's pieces (real) vs model `pieces`"""
    import asyncio
    import torch
    from torchsnapshot.io_preparer import prepare_write
    rng = ctx.rng
    coq, meta = [], []
    for _ in range(ctx.n(120, 1200)):
        dtype = rng.choice(sg.BP_DTYPES)
        shape = rng.choice([[1], [3], [7], [2, 3], [5, 2], [2, 2, 3], [4, 1], [17], [3, 5]])
        layout = rng.choice(["contiguous", "transposed", "strided", "offset", "broadcast"])
        t = sg.make_tensor(rng, dtype, shape, layout)
        esize = sg.ESIZE[dtype]
        size = esize * t.numel()
        csz = rng.choice([1, esize - 1 if esize > 1 else 1, esize, esize + 1, size // 2 or 1, size - 1 or 1, size, size + 1, 7, 16])
        os.environ[KNOB_ENV["chunk"]] = str(csz)
        try:
            entry, wrs = prepare_write(t, "p", rank=0, replicated=False)
            loop = asyncio.new_event_loop()
            try:
                bufs = [bytes(loop.run_until_complete(w.buffer_stager.stage_buffer(None))) for w in wrs]
            finally:
                loop.close()
        finally:
            os.environ.pop(KNOB_ENV["chunk"], None)
        b = sg.tensor_bytes(t)
        res.case({"pieces": True, "dtype": dtype, "shape": shape, "layout": layout, "chunk": csz, "n_pieces": len(bufs)}, nontrivial=len(bufs) > 1)
        res.count("pieces.n", min(len(bufs), 9)); res.count("pieces.layout", layout)
        if b"".join(bufs) != b:
            res.failures.append(Failure("C01:staged-pieces-do-not-concatenate-to-tensor-bytes",
                                        f"{dtype}{shape} {layout} chunk={csz}: staged pieces differ from the tensor's bytes", {"dtype": dtype, "shape": shape, "layout": layout, "chunk": csz}))
        coq.append((f"({term(shape)}, {term(esize)}, {term(csz)}, {term(b)})", val([[list(x) for x in bufs]])))
        meta.append({"dtype": dtype, "shape": shape, "layout": layout, "chunk": csz})
    bad, errs = coqrun.run_cases("C01_pieces", IMPORTS, "obs_pieces", coq, shard=300, in_type="list Z * Z * Z * list Z")
    for e in errs:
        res.mismatches.append(Mismatch(CORRESPONDENCES[0], "coqc error", None, e))
    for i in bad:
        res.mismatches.append(Mismatch(CORRESPONDENCES[0], meta[i], coq[i][1][:300], None))
    res.traces_validated += len(coq)


def correspond(ctx: Ctx) -> Result:
    res = Result(rule=RULE)
    rng = ctx.rng
    check_pieces(ctx, res)
    # corpus: the cases that used to fail (fixed) must keep passing
    corpus = [
        ({"m": ("dict", [("bf", ("tensor", "bfloat16", [3], "contiguous", 1)), ("z", ("tensor", "float32", [0, 3], "contiguous", 2)),
                         ("s", ("tensor", "int64", [], "contiguous", 3)), (1, ("prim", 5)), ("01", ("prim", 6))])},
         {"chunk": 1, "slab": 1, "nobatch": False, "budget": 1, "conc": 1}),
        ({"m": ("odict", [("w", ("tensor", "float64", [5, 2], "transposed", 4)), ("c", ("tensor", "complex64", [3], "contiguous", 5)),
                          ("o", ("obj", (1, "x", None))), ("nan", ("prim", float("nan")))])},
         {"chunk": 16, "slab": 40, "nobatch": True, "budget": 50, "conc": 2}),
    ]
    n = ctx.n(150, 1500)
    for i in range(n + len(corpus)):
        if i < len(corpus):
            app, knobs = corpus[i]
        else:
            app, knobs = gen_app(rng), gen_knobs(rng)
        keys = list(app.keys())
        for mode in (["inplace", "none", "wrong"] if (i < len(corpus) or ctx.thorough) else [rng.choice(["inplace", "none", "wrong"])]):
            subset = keys if rng.random() < 0.6 else rng.sample(keys, rng.randint(1, len(keys)))
            tag = f"knobs={knobs} mode={mode} subset={subset}"
            state = {k: sg.build(s, None) for k, s in app.items()}
            res.case({"app": {k: str(v)[:160] for k, v in app.items()}, "knobs": knobs, "mode": mode, "subset": subset},
                     nontrivial=any(has_tensor_elems(v) for v in state.values()))
            res.count("mode", mode); res.count("nobatch", knobs["nobatch"]); res.count("chunk", knobs["chunk"]); res.count("slab", knobs["slab"])
            res.count("budget", knobs["budget"]); res.count("conc", knobs["conc"]); res.count("n_keys", len(keys))
            path = take_restore(ctx, app, knobs, mode, subset, res, tag)
            if path:
                shutil.rmtree(os.path.dirname(path), ignore_errors=True)
    # known finding (quantized in-place restore keeps the destination's quantizer)
    quantized_inplace(ctx, res)
    return res


def quantized_inplace(ctx, res):
    import torch
    from torchsnapshot import Snapshot, StateDict
    root = ctx.scratch("q")
    try:
        src = torch.quantize_per_tensor(torch.tensor([-0.5, -0.25, 0.0]), 0.25, 3, torch.qint8)
        with safe_gc():
            Snapshot.take(os.path.join(root, "s"), {"m": StateDict({"q": src})})
            dst = torch.quantize_per_tensor(torch.zeros(3), 1.0, 0, torch.qint8)
            tgt = {"m": StateDict({"q": dst})}
            Snapshot(os.path.join(root, "s")).restore(tgt)
        got = tgt["m"]["q"]
        res.case({"quantized_inplace": True}, nontrivial=True)
        if not torch.equal(got.dequantize(), src.dequantize()):
            res.failures.append(Failure("C01:quantized-inplace-restore-keeps-destination-qparams",
                                        f"in-place restore of a qint8 tensor: values {got.dequantize().tolist()} instead of {src.dequantize().tolist()} "
                                        f"(scale {got.q_scale()} / zero point {got.q_zero_point()} of the destination kept)", {"quantized": True}))
    except Exception as e:  # noqa
        res.notes.append(f"quantized in-place probe raised {type(e).__name__}: {str(e)[:120]}")
    finally:
        shutil.rmtree(root, ignore_errors=True)


def replay(ctx: Ctx, data):
    if data.get("quantized"):
        r = Result(); quantized_inplace(ctx, r)
        return r.failures[0] if r.failures else None
    if "app" not in data:
        return None
    r = Result()

    def fix(s):
        if isinstance(s, list):
            return tuple(fix(x) for x in s) if s and isinstance(s[0], str) and s[0] in ("tensor", "prim", "obj", "dict", "odict", "list") else [fix(x) for x in s]
        return s
    app = {k: fix(v) for k, v in data["app"].items()}
    p = take_restore(ctx, app, data["knobs"], data["mode"], data["subset"], r, "replay")
    if p:
        shutil.rmtree(os.path.dirname(p), ignore_errors=True)
    return r.failures[0] if r.failures else None


MANIFEST = {
    "level_text": ("Machine-checked proof (Coq 8.16.1) by composition: C01's own theorems compose the tensor data path at the byte "
                   "level - pieces staged by prepare_write (one piece or dim-0 chunks for every chunk knob >= 1) concatenate to the "
                   "tensor's bytes, and through slab batching (every threshold >= 1, any request order, any staging completion "
                   "order), storage, merged/ranged reads (any read order) the bytes reassembled for a leaf equal its original "
                   "bytes; containers/keys/order (C15), metadata (C14), bits<->bytes for every layout (C17), planning (C16), "
                   "exactly-once pipelines (C11), manifest view (C07) are the component theorems. The real API is tied in by "
                   "sampling the full product (structure x dtypes x shapes x layouts x knobs x targets x key subsets) with "
                   "bit-exact comparison and by comparing the staged pieces with the model."),
    "level_note": ("Trusted: Coq kernel+VM; the composition is by shared interfaces (byte lists, piece ids), the component models are "
                   "tied to the code by their own correspondences; torch.save/load is an oracle pair; storage locations assumed "
                   "distinct (C05). Quantized in-place restore is a known finding. No axioms."),
    "technique": "Coq composition theorems over the component models (byte-level data path) + bit-exact sampling of the knob/layout/target product on the real API",
    "design_ref": "DESIGN.md section 5, C01",
}
