"""C01 - Take then restore reproduces the application state exactly."""
from __future__ import annotations

import collections
import os
import shutil

from lib import coqrun
from lib.core import Ctx, Failure, Mismatch, Result
from lib.tocoq import term, val
from lib.world import safe_gc
from props import state_gen as sg

PROP = "C01"
PROPS_FILE = "props/C01.v"
GEN = ["gen_dispatch", "gen_chunk"]
CORRESPONDENCES = ["prepare_write-pieces~model", "restore(take(x))-bit-exact:sampled-product", "routing:prepare_write~generated", "routing:prepare_read~generated"]
RULE = ("the product structure x leaf kinds x 12 dtypes x shapes (scalar, zero-length, odd counts) x layouts (contiguous, "
        "transposed, strided, offset, broadcast) x knobs (chunk bytes {1,7,16,64,default}, slab threshold {1,9,40,default}, "
        "batching on/off, budget {1,50,large}, io concurrency {1,2,16}) x restore targets (in-place, None, wrong shape) x "
        "non-empty subsets of the stateful keys, sampled on the real Snapshot.take / restore with bit-exact comparison; "
        "and the staged pieces of every tensor compared with the Coq model. Non-trivial = state holds a tensor with > 0 "
        "elements; distinct by (state spec, knobs, target mode, key subset).")
TRUSTED = [
    "Coq 8.16.1 kernel and vm_compute; theorems closed under the global context",
    "the end-to-end statement is a composition: containers (C15), metadata (C14), tensor bits (C17), planning (C16), "
    "pipelines (C11), manifest view (C07), locations (C05) are proved under their own properties; C01's own theorems compose "
    "the tensor data path (chunk -> slab -> store -> read -> reassemble) at the byte level",
    "torch.save / torch.load for objects and torch_save dtypes: oracle pair (load (save x) = x), exercised here",
]
ASSUMPTIONS = [
    "storage locations are distinct (C05's hypotheses no_suffix_clash / no_empty_component; its known findings are the exceptions)",
    "objects survive torch.save/torch.load (this torch loads with weights_only: only allow-listed types are generated)",
]
IMPORTS = "From TS Require Import model.Pipeline.\n"
KNOB_ENV = {"chunk": "TORCHSNAPSHOT_MAX_CHUNK_SIZE_BYTES_OVERRIDE", "slab": "TORCHSNAPSHOT_SLAB_SIZE_THRESHOLD_BYTES_OVERRIDE",
            "nobatch": "TORCHSNAPSHOT_DISABLE_BATCHING", "budget": "TORCHSNAPSHOT_PER_RANK_MEMORY_BUDGET_BYTES",
            "conc": "TORCHSNAPSHOT_MAX_PER_RANK_IO_CONCURRENCY_OVERRIDE"}


class Knobs:
    def __init__(self, k):
        self.k, self.saved = k, {}

    def __enter__(self):
        for name, envn in KNOB_ENV.items():
            self.saved[envn] = os.environ.get(envn)
            v = self.k.get(name)
            if v is None or v is False:
                os.environ.pop(envn, None)
            else:
                os.environ[envn] = "1" if v is True else str(v)

    def __exit__(self, *a):
        for envn, v in self.saved.items():
            if v is None:
                os.environ.pop(envn, None)
            else:
                os.environ[envn] = v


def gen_knobs(rng):
    return {"chunk": rng.choice([None, 1, 7, 16, 64]), "slab": rng.choice([None, 1, 9, 40]), "nobatch": rng.random() < 0.4,
            "budget": rng.choice([1, 50, 100000000]), "conc": rng.choice([1, 2, 16])}


def gen_app(rng):
    """app_state spec: {stateful key: dict-like spec}"""
    nkeys = rng.randint(1, 3)
    keys = rng.sample(["model", "optim", "x/y", "progress", "ü"], nkeys)
    app = {}
    for k in keys:
        s = sg.gen_struct(rng, 0)
        while s[0] not in ("dict", "odict"):
            s = sg.gen_struct(rng, 0)
        # StateDict keys must be usable by UserDict.update: any hashable
        app[k] = s
    return app


def has_tensor_elems(x):
    import torch
    if isinstance(x, torch.Tensor):
        return x.numel() > 0
    if isinstance(x, dict):
        return any(has_tensor_elems(v) for v in x.values())
    if isinstance(x, list):
        return any(has_tensor_elems(v) for v in x)
    return False


def take_restore(ctx, app_spec, knobs, mode, subset, res, tag):
    from torchsnapshot import Snapshot, StateDict
    root = ctx.scratch("c01")
    path = os.path.join(root, "snap")
    saved = {k: sg.build(s, None) for k, s in app_spec.items()}
    expect = {k: sg.build(s, None) for k, s in app_spec.items()}          # independent copy of the same bits
    replay = {"app": app_spec, "knobs": knobs, "mode": mode, "subset": subset}
    try:
        with Knobs(knobs), safe_gc():
            try:
                Snapshot.take(path, {k: StateDict(v) for k, v in saved.items()})
            except Exception as e:  # noqa
                res.failures.append(Failure(f"C01:take-raised:{type(e).__name__}", f"take raised {type(e).__name__}: {str(e)[:200]} [{tag}]", replay))
                return None
            # take must not have modified the state it saved
            for k in saved:
                d = sg.equal_exact(saved[k], expect[k], k)
                if d:
                    res.failures.append(Failure("C01:take-modified-state", f"take changed the application state: {d} [{tag}]", replay))
            targets = {}
            for k in subset:
                blank = sg.blank_like(saved[k], mode, ctx.rng)
                targets[k] = StateDict(blank if mode != "none" else {})
            try:
                Snapshot(path).restore(targets)
            except Exception as e:  # noqa
                res.failures.append(Failure(f"C01:restore-raised:{type(e).__name__}", f"restore raised {type(e).__name__}: {str(e)[:200]} [{tag}]", replay))
                return path
            for k in subset:
                got = targets[k].data          # UserDict.data: a plain dict updated with the restored state dict
                exp = expect[k]
                d = None
                if [(type(x), x) for x in got.keys()] != [(type(x), x) for x in exp.keys()]:
                    d = f"{k}: top-level keys/order {list(got.keys())!r} vs {list(exp.keys())!r}"
                else:
                    for kk in exp:
                        d = d or sg.equal_exact(got[kk], exp[kk], f"{k}/{kk!r}")
                if d:
                    res.failures.append(Failure(f"C01:restored-state-differs:{mode}", f"restored state differs: {d} [{tag}]", replay))
        return path
    finally:
        pass


def check_pieces(ctx, res):
    """prepare_write's pieces (real) vs model `pieces`"""
    import asyncio
    import torch
    from torchsnapshot.io_preparer import prepare_write
    rng = ctx.rng
    coq, meta = [], []
    for _ in range(ctx.n(120, 1200)):
        dtype = rng.choice(sg.BP_DTYPES)
        shape = rng.choice([[1], [3], [7], [2, 3], [5, 2], [2, 2, 3], [4, 1], [17], [3, 5]])
        layout = rng.choice(["contiguous", "transposed", "strided", "offset", "broadcast"])
        t = sg.make_tensor(rng, dtype, shape, layout)
        esize = sg.ESIZE[dtype]
        size = esize * t.numel()
        csz = rng.choice([1, esize - 1 if esize > 1 else 1, esize, esize + 1, size // 2 or 1, size - 1 or 1, size, size + 1, 7, 16])
        os.environ[KNOB_ENV["chunk"]] = str(csz)
        try:
            entry, wrs = prepare_write(t, "p", rank=0, replicated=False)
            loop = asyncio.new_event_loop()
            try:
                bufs = [bytes(loop.run_until_complete(w.buffer_stager.stage_buffer(None))) for w in wrs]
            finally:
                loop.close()
        finally:
            os.environ.pop(KNOB_ENV["chunk"], None)
        b = sg.tensor_bytes(t)
        res.case({"pieces": True, "dtype": dtype, "shape": shape, "layout": layout, "chunk": csz, "n_pieces": len(bufs)}, nontrivial=len(bufs) > 1)
        res.count("pieces.n", min(len(bufs), 9)); res.count("pieces.layout", layout)
        if b"".join(bufs) != b:
            res.failures.append(Failure("C01:staged-pieces-do-not-concatenate-to-tensor-bytes",
                                        f"{dtype}{shape} {layout} chunk={csz}: staged pieces differ from the tensor's bytes", {"dtype": dtype, "shape": shape, "layout": layout, "chunk": csz}))
        coq.append((f"({term(shape)}, {term(esize)}, {term(csz)}, {term(b)})", val([[list(x) for x in bufs]])))
        meta.append({"dtype": dtype, "shape": shape, "layout": layout, "chunk": csz})
    bad, errs = coqrun.run_cases("C01_pieces", IMPORTS, "obs_pieces", coq, shard=300, in_type="list Z * Z * Z * list Z")
    for e in errs:
        res.mismatches.append(Mismatch(CORRESPONDENCES[0], "coqc error", None, e))
    for i in bad:
        res.mismatches.append(Mismatch(CORRESPONDENCES[0], meta[i], coq[i][1][:300], None))
    res.traces_validated += len(coq)


ECLASS_IDS = {"Entry": 0, "TensorEntry": 1, "ShardedTensorEntry": 2, "ChunkedTensorEntry": 3, "DTensorEntry": 4, "ObjectEntry": 5,
              "ListEntry": 6, "DictEntry": 7, "OrderedDictEntry": 8, "PrimitiveEntry": 9}
RKIND_IDS = {"PrimitivePreparer": 0, "ShardedTensorIOPreparer": 1, "DTensorIOPreparer": 2, "ChunkedTensorIOPreparer": 3,
             "TensorIOPreparer": 4, "ObjectIOPreparer": 5}
ROUTE_IMPORTS = "From TS Require Import model.DispatchGenObs.\n"


def check_routing(ctx, res):
    """io_preparer.prepare_write / prepare_read routing (real) vs the terms generated from io_preparer.py"""
    import torch
    from torch.distributed._shard.sharded_tensor import ShardedTensor
    from torchsnapshot import io_preparer as iop
    from torchsnapshot import manifest as mf
    from torchsnapshot.knobs import get_max_chunk_size_bytes
    from props.C08 import C08Group, C08_make_sharded
    try:
        from torch.distributed._tensor import DTensor
    except Exception:  # noqa
        DTensor = None
    rng = ctx.rng
    objs = [("int", 3), ("str", "x"), ("bool", True), ("float", 1.5), ("bytes", b"ab"), ("none", None), ("tuple", (1, 2)),
            ("list-obj", [1, 2]), ("complex", 1j), ("empty-tensor", torch.zeros(0))]
    for n in (1, 2, 3, 4, 5, 8):
        objs.append((f"tensor-int8-{n}", torch.arange(n, dtype=torch.int8)))
        objs.append((f"tensor-f32-{n}", torch.arange(n, dtype=torch.float32)))
    wcases, wmeta, entries = [], [], []
    with C08Group(ctx):
        G = torch.arange(12, dtype=torch.float32).reshape(4, 3)
        try:
            objs.append(("sharded", C08_make_sharded([([0, 0], [2, 3]), ([2, 0], [2, 3])], [4, 3], [G[0:2].clone(), G[2:4].clone()])))
        except Exception as e:  # noqa
            res.notes.append(f"routing: no ShardedTensor ({type(e).__name__})")
        if DTensor is not None:
            try:
                from torch.distributed._tensor import DeviceMesh, distribute_tensor, Replicate, Shard as DShard
                mesh = DeviceMesh("cpu", [0])
                objs.append(("dtensor-sharded", distribute_tensor(G.clone(), mesh, [DShard(0)])))
                objs.append(("dtensor-replicated", distribute_tensor(G.clone(), mesh, [Replicate()])))
            except Exception as e:  # noqa
                res.notes.append(f"routing: no DTensor ({type(e).__name__}: {str(e)[:80]})")
        for name, obj in objs:
            for knob in ([None] if not isinstance(obj, torch.Tensor) else [None, 1, 4, 5, 16, 31, 32, 33]):
                if knob is None:
                    os.environ.pop(KNOB_ENV["chunk"], None)
                else:
                    os.environ[KNOB_ENV["chunk"]] = str(knob)
                try:
                    flags = (bool(iop.PrimitivePreparer.should_inline(obj)), isinstance(obj, ShardedTensor),
                             DTensor is not None and isinstance(obj, DTensor), isinstance(obj, torch.Tensor))
                    nbytes = obj.nelement() * obj.element_size() if (isinstance(obj, torch.Tensor) and not flags[1] and not flags[2]) else 0
                    k = get_max_chunk_size_bytes()
                    try:
                        entry, _ = iop.prepare_write(obj, "p/q", rank=0, replicated=True)
                    except Exception as e:  # noqa
                        res.notes.append(f"routing: prepare_write({name}) raised {type(e).__name__}: {str(e)[:80]}")
                        continue
                finally:
                    os.environ.pop(KNOB_ENV["chunk"], None)
                cls = type(entry).__name__
                sets = getattr(entry, "replicated", None) is True
                res.case({"routing": "write", "obj": name, "knob": knob, "entry": cls}, nontrivial=True)
                res.count("routing.write", cls)
                wcases.append((f"({term(flags[0])}, {term(flags[1])}, {term(flags[2])}, {term(flags[3])}, {term(nbytes)}, {term(k)})",
                               val([ECLASS_IDS.get(cls, -1), 1 if sets else 0])))
                wmeta.append({"obj": name, "knob": knob, "entry": cls, "flags": flags, "nbytes": nbytes})
                entries.append((name, entry))
        # ---- read side: which preparer gets the entry, and is the buffer limit passed on
        seen = {}
        for name, entry in entries:
            seen.setdefault(type(entry).__name__, entry)
        seen.setdefault("ListEntry", mf.ListEntry())
        seen.setdefault("DictEntry", mf.DictEntry(keys=[]))
        seen.setdefault("OrderedDictEntry", mf.OrderedDictEntry(keys=[]))
        seen.setdefault("Entry", mf.Entry(type="x"))
        rcases, rmeta = [], []
        names = ["PrimitivePreparer", "ShardedTensorIOPreparer", "DTensorIOPreparer", "ChunkedTensorIOPreparer", "TensorIOPreparer", "ObjectIOPreparer"]
        for cls, entry in seen.items():
            calls = []
            saved = {}
            for pn in names:
                prep = getattr(iop, pn)
                saved[pn] = prep.__dict__["prepare_read"]

                def spy(*a, _pn=pn, **kw):
                    calls.append((_pn, "buffer_size_limit_bytes" in kw and kw["buffer_size_limit_bytes"] == 77))
                    return [], None
                setattr(prep, "prepare_read", staticmethod(spy))
            try:
                try:
                    iop.prepare_read(entry, None, buffer_size_limit_bytes=77)
                    exp = [RKIND_IDS[calls[0][0]], 1 if calls[0][1] else 0] if len(calls) == 1 else [-1, len(calls)]
                except Exception:  # noqa
                    exp = []
            finally:
                for pn in names:
                    setattr(getattr(iop, pn), "prepare_read", saved[pn])
            res.case({"routing": "read", "entry": cls, "to": exp}, nontrivial=True)
            res.count("routing.read", cls)
            rcases.append((term(ECLASS_IDS[cls]), val(exp)))
            rmeta.append({"entry": cls, "observed": exp})
    for name, fn, cases, meta, ty in ((CORRESPONDENCES[2], "obs_write_route", wcases, wmeta, "bool * bool * bool * bool * Z * Z"),
                                      (CORRESPONDENCES[3], "obs_read_route", rcases, rmeta, "Z")):
        bad, errs = coqrun.run_cases("C01_" + fn, ROUTE_IMPORTS, fn, cases, shard=300, in_type=ty)
        for e in errs:
            res.mismatches.append(Mismatch(name, "coqc error", None, e))
        for i in bad:
            res.mismatches.append(Mismatch(name, meta[i], cases[i][1], None))
        res.traces_validated += len(cases)


def correspond(ctx: Ctx) -> Result:
    res = Result(rule=RULE)
    rng = ctx.rng
    check_pieces(ctx, res)
    check_routing(ctx, res)
    # corpus: the cases that used to fail (fixed) must keep passing
    corpus = [
        ({"m": ("dict", [("bf", ("tensor", "bfloat16", [3], "contiguous", 1)), ("z", ("tensor", "float32", [0, 3], "contiguous", 2)),
                         ("s", ("tensor", "int64", [], "contiguous", 3)), (1, ("prim", 5)), ("01", ("prim", 6))])},
         {"chunk": 1, "slab": 1, "nobatch": False, "budget": 1, "conc": 1}),
        ({"m": ("odict", [("w", ("tensor", "float64", [5, 2], "transposed", 4)), ("c", ("tensor", "complex64", [3], "contiguous", 5)),
                          ("o", ("obj", (1, "x", None))), ("nan", ("prim", float("nan")))])},
         {"chunk": 16, "slab": 40, "nobatch": True, "budget": 50, "conc": 2}),
    ]
    n = ctx.n(150, 1500)
    for i in range(n + len(corpus)):
        if i < len(corpus):
            app, knobs = corpus[i]
        else:
            app, knobs = gen_app(rng), gen_knobs(rng)
        keys = list(app.keys())
        for mode in (["inplace", "none", "wrong"] if (i < len(corpus) or ctx.thorough) else [rng.choice(["inplace", "none", "wrong"])]):
            subset = keys if rng.random() < 0.6 else rng.sample(keys, rng.randint(1, len(keys)))
            tag = f"knobs={knobs} mode={mode} subset={subset}"
            state = {k: sg.build(s, None) for k, s in app.items()}
            res.case({"app": {k: str(v)[:160] for k, v in app.items()}, "knobs": knobs, "mode": mode, "subset": subset},
                     nontrivial=any(has_tensor_elems(v) for v in state.values()))
            res.count("mode", mode); res.count("nobatch", knobs["nobatch"]); res.count("chunk", knobs["chunk"]); res.count("slab", knobs["slab"])
            res.count("budget", knobs["budget"]); res.count("conc", knobs["conc"]); res.count("n_keys", len(keys))
            path = take_restore(ctx, app, knobs, mode, subset, res, tag)
            if path:
                shutil.rmtree(os.path.dirname(path), ignore_errors=True)
    # known finding (quantized in-place restore keeps the destination's quantizer)
    quantized_inplace(ctx, res)
    return res


def quantized_inplace(ctx, res):
    import torch
    from torchsnapshot import Snapshot, StateDict
    root = ctx.scratch("q")
    try:
        src = torch.quantize_per_tensor(torch.tensor([-0.5, -0.25, 0.0]), 0.25, 3, torch.qint8)
        with safe_gc():
            Snapshot.take(os.path.join(root, "s"), {"m": StateDict({"q": src})})
            dst = torch.quantize_per_tensor(torch.zeros(3), 1.0, 0, torch.qint8)
            tgt = {"m": StateDict({"q": dst})}
            Snapshot(os.path.join(root, "s")).restore(tgt)
        got = tgt["m"]["q"]
        res.case({"quantized_inplace": True}, nontrivial=True)
        if not torch.equal(got.dequantize(), src.dequantize()):
            res.failures.append(Failure("C01:quantized-inplace-restore-keeps-destination-qparams",
                                        f"in-place restore of a qint8 tensor: values {got.dequantize().tolist()} instead of {src.dequantize().tolist()} "
                                        f"(scale {got.q_scale()} / zero point {got.q_zero_point()} of the destination kept)", {"quantized": True}))
    except Exception as e:  # noqa
        res.notes.append(f"quantized in-place probe raised {type(e).__name__}: {str(e)[:120]}")
    finally:
        shutil.rmtree(root, ignore_errors=True)


def replay(ctx: Ctx, data):
    if data.get("quantized"):
        r = Result(); quantized_inplace(ctx, r)
        return r.failures[0] if r.failures else None
    if "app" not in data:
        return None
    r = Result()

    def fix(s):
        if isinstance(s, list):
            return tuple(fix(x) for x in s) if s and isinstance(s[0], str) and s[0] in ("tensor", "prim", "obj", "dict", "odict", "list") else [fix(x) for x in s]
        return s
    app = {k: fix(v) for k, v in data["app"].items()}
    p = take_restore(ctx, app, data["knobs"], data["mode"], data["subset"], r, "replay")
    if p:
        shutil.rmtree(os.path.dirname(p), ignore_errors=True)
    return r.failures[0] if r.failures else None


MANIFEST = {
    "level_text": ("Machine-checked proof (Coq 8.16.1) by composition: C01's own theorems compose the tensor data path at the byte "
                   "level - pieces staged by prepare_write (one piece or dim-0 chunks for every chunk knob >= 1) concatenate to the "
                   "tensor's bytes, and through slab batching (every threshold >= 1, any request order, any staging completion "
                   "order), storage, merged/ranged reads (any read order) the bytes reassembled for a leaf equal its original "
                   "bytes; containers/keys/order (C15), metadata (C14), bits<->bytes for every layout (C17), planning (C16), "
                   "exactly-once pipelines (C11), manifest view (C07) are the component theorems. The real API is tied in by "
                   "sampling the full product (structure x dtypes x shapes x layouts x knobs x targets x key subsets) with "
                   "bit-exact comparison and by comparing the staged pieces with the model."),
    "level_note": ("Trusted: Coq kernel+VM; the composition is by shared interfaces (byte lists, piece ids), the component models are "
                   "tied to the code by their own correspondences; torch.save/load is an oracle pair; storage locations assumed "
                   "distinct (C05). Quantized in-place restore is a known finding. No axioms."),
    "technique": "Coq composition theorems over the component models (byte-level data path) + bit-exact sampling of the knob/layout/target product on the real API",
    "design_ref": "DESIGN.md section 5, C01",
}
