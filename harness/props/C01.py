"""C01 - Take then restore reproduces the application state exactly."""
from __future__ import annotations

import collections
import os
import shutil

from lib import coqrun
from lib.core import Ctx, Failure, Mismatch, Result
from lib.tocoq import term, val
from lib.world import safe_gc
from props import state_gen as sg

PROP = "C01"
PROPS_FILE = "props/C01.v"
GEN = ["gen_dispatch", "gen_chunk", "gen_glue", "gen_flatten", "gen_flatten_rec"]
CORRESPONDENCES = ["prepare_write-pieces~model", "restore(take(x))-bit-exact:sampled-product", "routing:prepare_write~generated", "routing:prepare_read~generated",
                   "glue:take~generated", "glue:take+restore~generated", "glue:read_object~generated"]
RULE = ("the product structure x leaf kinds x 12 dtypes x shapes (scalar, zero-length, odd counts) x layouts (contiguous, "
        "transposed, strided, offset, broadcast) x knobs (chunk bytes {1,7,16,64,default}, slab threshold {1,9,40,default}, "
        "batching on/off, budget {1,50,large}, io concurrency {1,2,16}) x restore targets (in-place, None, wrong shape) x "
        "non-empty subsets of the stateful keys, sampled on the real Snapshot.take / restore with bit-exact comparison; "
        "the staged pieces of every tensor compared with the Coq model; and the glue generated from snapshot.py run against the "
        "real take / restore / read_object on the same structures with id-carrying leaves (keys that are string prefixes of "
        "each other, keys that need escaping, RNGState first / last, replication globs, batching on/off, restore targets "
        "same / empty / other structure, key subsets): global manifest, prepare_write arguments, what every load_state_dict "
        "received, the in-place target of every prepare_read, read_object of every manifest path. Non-trivial = state holds a "
        "tensor with > 0 elements (every glue case counts); distinct by (state spec, knobs, target mode, key subset). "
        "sequences:public-API-operation-sequences (props/seq_common.py: random sequences of take / restore / read_object ... "
        "operations through the public API in one process, 14 operations each).")
TRUSTED = [
    "Coq 8.16.1 kernel and vm_compute; theorems closed under the global context",
    "the end-to-end statement is a composition: containers (C15), metadata (C14), tensor bits (C17), planning (C16), "
    "pipelines (C11), manifest view (C07), locations (C05) are proved under their own properties; C01's own theorems compose "
    "the tensor data path (chunk -> slab -> store -> read -> reassemble) at the byte level and, over the glue regenerated "
    "from snapshot.py on every run (translator/gen_glue.py -> gen/GlueGen.v), the container-level data flow of "
    "_take_impl / restore / _load_stateful / _get_state_dict_for_manifest / read_object",
    "translator/gen_glue.py (Python ast -> Gallina, fail closed): statement-by-statement translation of the eight glue methods; "
    "components are recognised by name with their exact argument lists (checked against the callee's def in the source tree); "
    "dropped as observers: log_event, logger calls, _log_api_usage_once, _validate_app_state, sync_close / event_loop.close, "
    "pg.barrier (C12's subject)",
    "model/Glue.v: leaves are opaque values; prepare_write = inline entry or (generated get_storage_path location, one write "
    "request); a store is the list of writes performed; a future is filled by the read executor with what w_read finds; "
    "the laws a world must satisfy (glue_laws in props/C01.v) are hypotheses of the general theorems and are PROVED for the "
    "one-rank world of model/GlueGenObs.v, which is the world the correspondence runs",
    "torch.save / torch.load for objects and torch_save dtypes: oracle pair (load (save x) = x), exercised here",
]
ASSUMPTIONS = [
    "storage locations are distinct (C05's hypotheses no_suffix_clash / no_empty_component; its known findings are the exceptions); "
    "in the one-rank world this is proved from: application-state keys are non-empty",
    "objects survive torch.save/torch.load (this torch loads with weights_only: only allow-listed types are generated)",
    "glue theorems: distinct non-empty app_state keys, dict keys distinct under Python equality (wf_obj), no RNGState in the "
    "proved statement (the RNG-first / RNG-last case is run by vm_compute and against the real code, not proved), restore "
    "targets are a subset of the saved keys, same world size, no sharded leaves; state_dict()/load_state_dict() do not raise",
    "glue_laws (general-world theorems only): all_gather returns the rank's own contribution (C12), the partitioner keeps the "
    "rank's requests (C06, one rank / nothing moved), stored objects read back exactly (C17/C16/C11), slab relocation preserves "
    "what an entry reads (C01_tensor_data_path), consolidation succeeds (C06), the rank's manifest view at the same world size "
    "is its own manifest (C07, C14), read batching serves the same requests (C16), elasticity touches sharded entries only (C07)",
]
IMPORTS = "From TS Require Import model.Pipeline.\n"
KNOB_ENV = {"chunk": "TORCHSNAPSHOT_MAX_CHUNK_SIZE_BYTES_OVERRIDE", "slab": "TORCHSNAPSHOT_SLAB_SIZE_THRESHOLD_BYTES_OVERRIDE",
            "nobatch": "TORCHSNAPSHOT_DISABLE_BATCHING", "budget": "TORCHSNAPSHOT_PER_RANK_MEMORY_BUDGET_BYTES",
            "conc": "TORCHSNAPSHOT_MAX_PER_RANK_IO_CONCURRENCY_OVERRIDE"}


class Knobs:
    def __init__(self, k):
        self.k, self.saved = k, {}

    def __enter__(self):
        for name, envn in KNOB_ENV.items():
            self.saved[envn] = os.environ.get(envn)
            v = self.k.get(name)
            if v is None or v is False:
                os.environ.pop(envn, None)
            else:
                os.environ[envn] = "1" if v is True else str(v)

    def __exit__(self, *a):
        for envn, v in self.saved.items():
            if v is None:
                os.environ.pop(envn, None)
            else:
                os.environ[envn] = v


def gen_knobs(rng):
    return {"chunk": rng.choice([None, 1, 7, 16, 64]), "slab": rng.choice([None, 1, 9, 40]), "nobatch": rng.random() < 0.4,
            "budget": rng.choice([1, 50, 100000000]), "conc": rng.choice([1, 2, 16])}


def gen_app(rng):
    """app_state spec: {stateful key: dict-like spec}"""
    nkeys = rng.randint(1, 3)
    keys = rng.sample(["model", "optim", "x/y", "progress", "ü"], nkeys)
    app = {}
    for k in keys:
        s = sg.gen_struct(rng, 0)
        while s[0] not in ("dict", "odict"):
            s = sg.gen_struct(rng, 0)
        # StateDict keys must be usable by UserDict.update: any hashable
        app[k] = s
    return app


def has_tensor_elems(x):
    import torch
    if isinstance(x, torch.Tensor):
        return x.numel() > 0
    if isinstance(x, dict):
        return any(has_tensor_elems(v) for v in x.values())
    if isinstance(x, list):
        return any(has_tensor_elems(v) for v in x)
    return False


def take_restore(ctx, app_spec, knobs, mode, subset, res, tag):
    from torchsnapshot import Snapshot, StateDict
    root = ctx.scratch("c01")
    path = os.path.join(root, "snap")
    saved = {k: sg.build(s, None) for k, s in app_spec.items()}
    expect = {k: sg.build(s, None) for k, s in app_spec.items()}          # independent copy of the same bits
    replay = {"app": app_spec, "knobs": knobs, "mode": mode, "subset": subset}
    try:
        with Knobs(knobs), safe_gc():
            try:
                Snapshot.take(path, {k: StateDict(v) for k, v in saved.items()})
            except Exception as e:  # noqa
                res.failures.append(Failure(f"C01:take-raised:{type(e).__name__}", f"take raised {type(e).__name__}: {str(e)[:200]} [{tag}]", replay))
                return None
            # take must not have modified the state it saved
            for k in saved:
                d = sg.equal_exact(saved[k], expect[k], k)
                if d:
                    res.failures.append(Failure("C01:take-modified-state", f"take changed the application state: {d} [{tag}]", replay))
            targets = {}
            for k in subset:
                blank = sg.blank_like(saved[k], mode, ctx.rng)
                targets[k] = StateDict(blank if mode != "none" else {})
            try:
                Snapshot(path).restore(targets)
            except Exception as e:  # noqa
                res.failures.append(Failure(f"C01:restore-raised:{type(e).__name__}", f"restore raised {type(e).__name__}: {str(e)[:200]} [{tag}]", replay))
                return path
            for k in subset:
                got = targets[k].data          # UserDict.data: a plain dict updated with the restored state dict
                exp = expect[k]
                d = None
                if [(type(x), x) for x in got.keys()] != [(type(x), x) for x in exp.keys()]:
                    d = f"{k}: top-level keys/order {list(got.keys())!r} vs {list(exp.keys())!r}"
                else:
                    for kk in exp:
                        d = d or sg.equal_exact(got[kk], exp[kk], f"{k}/{kk!r}")
                if d:
                    res.failures.append(Failure(f"C01:restored-state-differs:{mode}", f"restored state differs: {d} [{tag}]", replay))
        return path
    finally:
        pass


def check_pieces(ctx, res):
    """prepare_write's pieces (real) vs model `pieces`"""
    import asyncio
    import torch
    from torchsnapshot.io_preparer import prepare_write
    rng = ctx.rng
    coq, meta = [], []
    for _ in range(ctx.n(120, 1200)):
        dtype = rng.choice(sg.BP_DTYPES)
        shape = rng.choice([[1], [3], [7], [2, 3], [5, 2], [2, 2, 3], [4, 1], [17], [3, 5]])
        layout = rng.choice(["contiguous", "transposed", "strided", "offset", "broadcast"])
        t = sg.make_tensor(rng, dtype, shape, layout)
        esize = sg.ESIZE[dtype]
        size = esize * t.numel()
        csz = rng.choice([1, esize - 1 if esize > 1 else 1, esize, esize + 1, size // 2 or 1, size - 1 or 1, size, size + 1, 7, 16])
        os.environ[KNOB_ENV["chunk"]] = str(csz)
        try:
            entry, wrs = prepare_write(t, "p", rank=0, replicated=False)
            loop = asyncio.new_event_loop()
            try:
                bufs = [bytes(loop.run_until_complete(w.buffer_stager.stage_buffer(None))) for w in wrs]
            finally:
                loop.close()
        finally:
            os.environ.pop(KNOB_ENV["chunk"], None)
        b = sg.tensor_bytes(t)
        res.case({"pieces": True, "dtype": dtype, "shape": shape, "layout": layout, "chunk": csz, "n_pieces": len(bufs)}, nontrivial=len(bufs) > 1)
        res.count("pieces.n", min(len(bufs), 9)); res.count("pieces.layout", layout)
        if b"".join(bufs) != b:
            res.failures.append(Failure("C01:staged-pieces-do-not-concatenate-to-tensor-bytes",
                                        f"{dtype}{shape} {layout} chunk={csz}: staged pieces differ from the tensor's bytes", {"dtype": dtype, "shape": shape, "layout": layout, "chunk": csz}))
        coq.append((f"({term(shape)}, {term(esize)}, {term(csz)}, {term(b)})", val([[list(x) for x in bufs]])))
        meta.append({"dtype": dtype, "shape": shape, "layout": layout, "chunk": csz})
    bad, errs = coqrun.run_cases("C01_pieces", IMPORTS, "obs_pieces", coq, shard=300, in_type="list Z * Z * Z * list Z")
    for e in errs:
        res.mismatches.append(Mismatch(CORRESPONDENCES[0], "coqc error", None, e))
    for i in bad:
        res.mismatches.append(Mismatch(CORRESPONDENCES[0], meta[i], coq[i][1][:300], None))
    res.traces_validated += len(coq)


ECLASS_IDS = {"Entry": 0, "TensorEntry": 1, "ShardedTensorEntry": 2, "ChunkedTensorEntry": 3, "DTensorEntry": 4, "ObjectEntry": 5,
              "ListEntry": 6, "DictEntry": 7, "OrderedDictEntry": 8, "PrimitiveEntry": 9}
RKIND_IDS = {"PrimitivePreparer": 0, "ShardedTensorIOPreparer": 1, "DTensorIOPreparer": 2, "ChunkedTensorIOPreparer": 3,
             "TensorIOPreparer": 4, "ObjectIOPreparer": 5}
ROUTE_IMPORTS = "From TS Require Import model.DispatchGenObs.\n"


def check_routing(ctx, res):
    """io_preparer.prepare_write / prepare_read routing (real) vs the terms generated from io_preparer.py"""
    import torch
    from torch.distributed._shard.sharded_tensor import ShardedTensor
    from torchsnapshot import io_preparer as iop
    from torchsnapshot import manifest as mf
    from torchsnapshot.knobs import get_max_chunk_size_bytes
    from props.C08 import C08Group, C08_make_sharded
    try:
        from torch.distributed._tensor import DTensor
    except Exception:  # noqa
        DTensor = None
    rng = ctx.rng
    objs = [("int", 3), ("str", "x"), ("bool", True), ("float", 1.5), ("bytes", b"ab"), ("none", None), ("tuple", (1, 2)),
            ("list-obj", [1, 2]), ("complex", 1j), ("empty-tensor", torch.zeros(0))]
    for n in (1, 2, 3, 4, 5, 8):
        objs.append((f"tensor-int8-{n}", torch.arange(n, dtype=torch.int8)))
        objs.append((f"tensor-f32-{n}", torch.arange(n, dtype=torch.float32)))
    wcases, wmeta, entries = [], [], []
    with C08Group(ctx):
        G = torch.arange(12, dtype=torch.float32).reshape(4, 3)
        try:
            objs.append(("sharded", C08_make_sharded([([0, 0], [2, 3]), ([2, 0], [2, 3])], [4, 3], [G[0:2].clone(), G[2:4].clone()])))
        except Exception as e:  # noqa
            res.notes.append(f"routing: no ShardedTensor ({type(e).__name__})")
        if DTensor is not None:
            try:
                from torch.distributed._tensor import DeviceMesh, distribute_tensor, Replicate, Shard as DShard
                mesh = DeviceMesh("cpu", [0])
                objs.append(("dtensor-sharded", distribute_tensor(G.clone(), mesh, [DShard(0)])))
                objs.append(("dtensor-replicated", distribute_tensor(G.clone(), mesh, [Replicate()])))
            except Exception as e:  # noqa
                res.notes.append(f"routing: no DTensor ({type(e).__name__}: {str(e)[:80]})")
        for name, obj in objs:
            for knob in ([None] if not isinstance(obj, torch.Tensor) else [None, 1, 4, 5, 16, 31, 32, 33]):
                if knob is None:
                    os.environ.pop(KNOB_ENV["chunk"], None)
                else:
                    os.environ[KNOB_ENV["chunk"]] = str(knob)
                try:
                    flags = (bool(iop.PrimitivePreparer.should_inline(obj)), isinstance(obj, ShardedTensor),
                             DTensor is not None and isinstance(obj, DTensor), isinstance(obj, torch.Tensor))
                    nbytes = obj.nelement() * obj.element_size() if (isinstance(obj, torch.Tensor) and not flags[1] and not flags[2]) else 0
                    k = get_max_chunk_size_bytes()
                    try:
                        entry, _ = iop.prepare_write(obj, "p/q", rank=0, replicated=True)
                    except Exception as e:  # noqa
                        res.notes.append(f"routing: prepare_write({name}) raised {type(e).__name__}: {str(e)[:80]}")
                        continue
                finally:
                    os.environ.pop(KNOB_ENV["chunk"], None)
                cls = type(entry).__name__
                sets = getattr(entry, "replicated", None) is True
                res.case({"routing": "write", "obj": name, "knob": knob, "entry": cls}, nontrivial=True)
                res.count("routing.write", cls)
                wcases.append((f"({term(flags[0])}, {term(flags[1])}, {term(flags[2])}, {term(flags[3])}, {term(nbytes)}, {term(k)})",
                               val([ECLASS_IDS.get(cls, -1), 1 if sets else 0])))
                wmeta.append({"obj": name, "knob": knob, "entry": cls, "flags": flags, "nbytes": nbytes})
                entries.append((name, entry))
        # ---- read side: which preparer gets the entry, and is the buffer limit passed on
        seen = {}
        for name, entry in entries:
            seen.setdefault(type(entry).__name__, entry)
        seen.setdefault("ListEntry", mf.ListEntry())
        seen.setdefault("DictEntry", mf.DictEntry(keys=[]))
        seen.setdefault("OrderedDictEntry", mf.OrderedDictEntry(keys=[]))
        seen.setdefault("Entry", mf.Entry(type="x"))
        rcases, rmeta = [], []
        names = ["PrimitivePreparer", "ShardedTensorIOPreparer", "DTensorIOPreparer", "ChunkedTensorIOPreparer", "TensorIOPreparer", "ObjectIOPreparer"]
        for cls, entry in seen.items():
            calls = []
            saved = {}
            for pn in names:
                prep = getattr(iop, pn)
                saved[pn] = prep.__dict__["prepare_read"]

                def spy(*a, _pn=pn, **kw):
                    calls.append((_pn, "buffer_size_limit_bytes" in kw and kw["buffer_size_limit_bytes"] == 77))
                    return [], None
                setattr(prep, "prepare_read", staticmethod(spy))
            try:
                try:
                    iop.prepare_read(entry, None, buffer_size_limit_bytes=77)
                    exp = [RKIND_IDS[calls[0][0]], 1 if calls[0][1] else 0] if len(calls) == 1 else [-1, len(calls)]
                except Exception:  # noqa
                    exp = []
            finally:
                for pn in names:
                    setattr(getattr(iop, pn), "prepare_read", saved[pn])
            res.case({"routing": "read", "entry": cls, "to": exp}, nontrivial=True)
            res.count("routing.read", cls)
            rcases.append((term(ECLASS_IDS[cls]), val(exp)))
            rmeta.append({"entry": cls, "observed": exp})
    for name, fn, cases, meta, ty in ((CORRESPONDENCES[2], "obs_write_route", wcases, wmeta, "bool * bool * bool * bool * Z * Z"),
                                      (CORRESPONDENCES[3], "obs_read_route", rcases, rmeta, "Z")):
        bad, errs = coqrun.run_cases("C01_" + fn, ROUTE_IMPORTS, fn, cases, shard=300, in_type=ty)
        for e in errs:
            res.mismatches.append(Mismatch(name, "coqc error", None, e))
        for i in bad:
            res.mismatches.append(Mismatch(name, meta[i], cases[i][1], None))
        res.traces_validated += len(cases)


# =========================================================================== the glue of snapshot.py (gen/GlueGen.v)
GLUE_IMPORTS = "From TS Require Import model.Flatten model.FlattenPy model.Glue model.GlueGenObs.\n"
RNG_LEAF = 2999997          # = 0 mod 3: a tensor
KIND = {"tensor": 0, "prim": 1, "obj": 2}


def s_term(s: str) -> str:
    return "[" + "; ".join(str(ord(c)) for c in s) + "]"


def key_term(k) -> str:
    if isinstance(k, str):
        return f"(KStr {s_term(k)})"
    if isinstance(k, bool):
        return "(KBool true)" if k else "(KBool false)"
    return f"(KInt ({k}))"


def key_obs(k):
    if isinstance(k, str):
        return [0, [ord(c) for c in k]]
    if isinstance(k, bool):
        return [2, int(k)]
    if isinstance(k, int):
        return [1, k]
    return [9]


def leaf_value(kind: int, lid: int):
    """a Python object of the given kind that carries its model leaf id"""
    import torch
    if kind == 0:
        shape = [[1], [2], [1, 1], [3]][lid % 4]
        return torch.full(shape, lid, dtype=torch.int64)
    if kind == 1:
        return lid if lid % 2 else f"s{lid}"
    return ("o", lid)


def leaf_id_of(v):
    """inverse of leaf_value (None when v carries no id)"""
    import torch
    if isinstance(v, torch.Tensor):
        if v.dtype == torch.uint8 and v.numel() > 64:
            return RNG_LEAF
        if v.dtype == torch.int64 and v.numel() > 0:
            return int(v.reshape(-1)[0])
        return None
    if isinstance(v, bool):
        return None
    if isinstance(v, int):
        return v
    if isinstance(v, str) and v[:1] == "s" and v[1:].lstrip("-").isdigit():
        return int(v[1:])
    if isinstance(v, tuple) and len(v) == 2 and v[0] == "o":
        return v[1]
    return None


def obj_obs(o):
    """the universal observation of a (restored / saved) object: structure with leaf ids"""
    t = type(o)
    if t is list:
        return [1, [obj_obs(x) for x in o]]
    if t in (dict, collections.OrderedDict):
        return [2, int(t is collections.OrderedDict), [[key_obs(k), obj_obs(v)] for k, v in o.items()]]
    lid = leaf_id_of(o)
    if lid is not None:
        return [0, lid]
    if o is None:
        return [0, -1]
    return [9]


class Ids:
    def __init__(self, base):
        self.n = base

    def fresh(self, kind):
        self.n += 1
        return 3 * self.n + kind


def idify(spec, ids: Ids):
    """state_gen structure spec -> (python object with id-carrying leaves, Gallina term of type obj)"""
    k = spec[0]
    if k in KIND:
        if k == "obj" and isinstance(spec[1], dict) and 1 in spec[1]:
            # a dict flatten cannot flatten (1 and "1" collide): kept whole, stored as one object
            a, b = ids.fresh(2), ids.fresh(1)
            return ({1: leaf_value(2, a), "1": leaf_value(1, b)},
                    f"(ODict false [({key_term(1)}, Leaf {a}); ({key_term('1')}, Leaf {b})])")
        lid = ids.fresh(KIND[k])
        return leaf_value(KIND[k], lid), f"(Leaf {lid})"
    if k == "list":
        xs = [idify(c, ids) for _, c in spec[1]]
        return [x for x, _ in xs], "(OList [" + "; ".join(t for _, t in xs) + "])"
    items = [(key, idify(c, ids)) for key, c in spec[1]]
    py = (dict if k == "dict" else collections.OrderedDict)((key, x) for key, (x, _) in items)
    term_ = (f"(ODict {'true' if k == 'odict' else 'false'} [" +
             "; ".join(f"({key_term(key)}, {t})" for key, (_, t) in items) + "])")
    return py, term_


def gen_glue_case(rng):
    app = gen_app(rng)
    keys = list(app.keys())
    if rng.random() < 0.3:                                   # keys one of which is a prefix of the other
        extra = rng.choice([k + "b" for k in keys] + [keys[0][:1] or "m"])
        if extra not in app:
            app[extra] = app[keys[0]] if rng.random() < 0.5 else ("dict", [("w", ("tensor", "int64", [1], "contiguous", 0))])
    keys = list(app.keys())
    globs = rng.choice([[], [], ["**"], [keys[0].replace("[", "?") + "/*"], ["*/w*", "*/[ab]"], ["**", "*/a"], ["*"]])
    subset = keys if rng.random() < 0.5 else rng.sample(keys, rng.randint(1, len(keys)))
    targets = {k: rng.choice(["same", "same", "empty", "other"]) for k in subset}
    return {"app": app, "globs": globs, "nobatch": rng.random() < 0.5, "targets": targets,
            "rng": rng.choice([None, None, "rng", "0rng", "zz/rng"]), "rng_restore": rng.random() < 0.7,
            "order": rng.random() < 0.5}


def run_glue_case(ctx, case, res, want_model=True):
    """one take + restore + read_object on the real code with id-carrying leaves.
    Returns (take input term, observations) or None; appends Failures for violations of C01 on the ids."""
    import fnmatch
    import torch
    from torchsnapshot import RNGState, Snapshot, StateDict
    import torchsnapshot.snapshot as snapmod
    from torchsnapshot.flatten import flatten
    from torchsnapshot.manifest import PrimitiveEntry
    from torchsnapshot.manifest_utils import is_container_entry
    from props.C15 import entry_obs as c15_entry_obs, Table

    loads, writes, preps, cur = [], [], [], {}

    class RecSD(StateDict):
        def __init__(self, data, sid):
            super().__init__(data)
            self.sid = sid

        def load_state_dict(self, state_dict):
            loads.append([self.sid, obj_obs(state_dict), []])
            super().load_state_dict(state_dict)

    class RecRNG(RNGState):
        sid = 0

        def load_state_dict(self, state_dict):
            loads.append([self.sid, obj_obs(state_dict), []])
            super().load_state_dict(state_dict)

    ids = Ids(0)
    saved, terms, sf_terms = {}, {}, []
    sid = 10
    app_state = {}
    order = list(case["app"].keys())
    if case.get("order"):
        order = order[::-1]
    for k in order:
        py, tm = idify(case["app"][k], ids)
        if tm.startswith("(ODict true ["):            # UserDict copies its argument into a plain dict
            tm = "(ODict false [" + tm[len("(ODict true ["):]
        sid += 1
        app_state[k] = RecSD(py, sid)
        saved[k], terms[k] = app_state[k].state_dict(), tm
        sf_terms.append(f"({s_term(k)}, ({sid}, false, {tm}))")
    rng_key = case.get("rng")
    if rng_key and rng_key not in app_state:
        r = RecRNG()
        r.sid = 99
        app_state[rng_key] = r
        sf_terms.append(f"({s_term(rng_key)}, (99, true, (ODict false [((KStr {s_term('rng_state')}), Leaf {RNG_LEAF})])))")
    else:
        rng_key = None
    globs = list(case["globs"])
    table = []
    for k, sf in app_state.items():
        _, fl = flatten(sf.state_dict(), prefix=k)
        for p in fl:
            for g in globs:
                if fnmatch.fnmatch(p, g):
                    table.append((p, g))
    tin = ("([" + "; ".join(sf_terms) + "], [" + "; ".join(s_term(g) for g in globs) + "], [" +
           "; ".join(f"({s_term(p)}, {s_term(g)})" for p, g in table) + f"], {term(bool(case['nobatch']))})")
    root = ctx.scratch("c01g")
    path = os.path.join(root, "snap")
    replay = {"glue": case}
    real_pw, real_pr, real_gsd = snapmod.prepare_write, snapmod.prepare_read, Snapshot.__dict__["_get_state_dict_for_manifest"]

    def spy_pw(*a, **kw):
        writes.append([obj_obs(kw.get("obj")), [ord(c) for c in kw.get("logical_path", "?")], kw.get("rank", -1),
                       int(bool(kw.get("replicated"))), int(bool(kw.get("is_async_snapshot", False)))])
        return real_pw(*a, **kw)

    def spy_pr(*a, **kw):
        entry = kw.get("entry", a[0] if a else None)
        out = kw.get("obj_out", a[1] if len(a) > 1 else None)
        if not isinstance(entry, PrimitiveEntry):
            lp = next((k for k, v in cur.get("m", {}).items() if v is entry), "?")
            preps.append((lp, [] if out is None else [obj_obs(out)]))
        return real_pr(*a, **kw)

    def spy_gsd(stateful_key, manifest, *a, **kw):
        cur["m"] = manifest
        return real_gsd.__func__(stateful_key, manifest, *a, **kw)

    obs = {}
    import logging
    slog = logging.getLogger("torchsnapshot.snapshot")
    slevel = slog.level
    slog.setLevel(logging.ERROR)
    try:
        with Knobs({"nobatch": case["nobatch"]}), safe_gc():
            snapmod.prepare_write = spy_pw
            try:
                try:
                    Snapshot.take(path, app_state, replicated=globs)
                finally:
                    snapmod.prepare_write = real_pw
            except Exception as e:  # noqa
                res.failures.append(Failure(f"C01:take-raised:{type(e).__name__}", f"take raised {type(e).__name__}: {str(e)[:200]} [glue]", replay))
                return tin, None
            take_loads = list(loads)
            del loads[:]
            man = Snapshot(path).get_manifest()
            mobs = []
            tab = Table()
            for p in sorted(man):
                e = man[p]
                if is_container_entry(e):
                    eo = c15_entry_obs(e, tab)
                elif isinstance(e, PrimitiveEntry):
                    eo = [4, int(bool(e.replicated)), obj_obs(e.get_value())]
                else:
                    loc = getattr(e, "location", None)
                    eo = [3, int(bool(getattr(e, "replicated", False))), [ord(c) for c in loc] if (case["nobatch"] and loc is not None) else []]
                mobs.append([[ord(c) for c in p], eo])
            obs["take"] = [[mobs, sorted(writes, key=lambda w: "".join(map(chr, w[1]))), take_loads]]
            # ---- restore
            tids = Ids(1000)
            targets, tgt_terms = {}, []
            tsid = 50
            for k, variant in case["targets"].items():
                if variant == "same":
                    py, tm = idify(case["app"][k], tids)
                    if tm.startswith("(ODict true ["):
                        tm = "(ODict false [" + tm[len("(ODict true ["):]
                elif variant == "empty":
                    py, tm = {}, "(ODict false [])"
                else:
                    lid = tids.fresh(0)
                    py, tm = {"zz": leaf_value(0, lid)}, f"(ODict false [((KStr {s_term('zz')}), Leaf {lid})])"
                tsid += 1
                targets[k] = RecSD(py, tsid)
                tgt_terms.append(f"({s_term(k)}, ({tsid}, false, {tm}))")
            if rng_key and case.get("rng_restore"):
                r = RecRNG()
                r.sid = 98
                targets[rng_key] = r
                tgt_terms.append(f"({s_term(rng_key)}, (98, true, (ODict false [((KStr {s_term('rng_state')}), Leaf {RNG_LEAF})])))")
            obs["targets_term"] = "[" + "; ".join(tgt_terms) + "]"
            snapmod.prepare_read = spy_pr
            Snapshot._get_state_dict_for_manifest = staticmethod(spy_gsd)
            try:
                try:
                    Snapshot(path).restore(targets)
                finally:
                    snapmod.prepare_read = real_pr
                    Snapshot._get_state_dict_for_manifest = real_gsd
            except Exception as e:  # noqa
                res.failures.append(Failure(f"C01:restore-raised:{type(e).__name__}", f"restore raised {type(e).__name__}: {str(e)[:200]} [glue {case['targets']}]", replay))
                return tin, obs
            obs["restore"] = [[list(loads), [[[ord(c) for c in lp], o] for lp, o in sorted(preps, key=lambda x: x[0])]]]
            # the property itself, on the ids: every requested stateful received exactly what its state_dict() returned
            by_sid = {l[0]: l[1] for l in loads}
            for k, t in targets.items():
                if isinstance(t, RecRNG):
                    continue
                want = obj_obs(saved[k])
                if by_sid.get(t.sid) != want:
                    res.failures.append(Failure("C01:restored-structure-differs",
                                                f"stateful {k!r}: load_state_dict received {str(by_sid.get(t.sid))[:160]} instead of {str(want)[:160]} [glue]", replay))
            # ---- read_object on every manifest path (and one that is not there)
            ro = []
            for p in list(sorted(man))[:7] + ["0/nope", "nope"]:
                try:
                    v = Snapshot(path).read_object(p)
                    o = [obj_obs(v)]
                except Exception:  # noqa
                    o = []
                ro.append((p, o))
                e = man.get(p)
                if e is not None and not is_container_entry(e):
                    lp = p.split("/", 1)[1]
                    if o != [flat_lookup(saved, app_state, lp)]:
                        res.failures.append(Failure("C01:read_object-returns-another-value",
                                                    f"read_object({p!r}) returned {str(o)[:120]} [glue]", replay))
            obs["read_object"] = ro
    finally:
        slog.setLevel(slevel)
        shutil.rmtree(root, ignore_errors=True)
    return tin, obs


def flat_lookup(saved, app_state, logical_path):
    from torchsnapshot.flatten import flatten
    for k, sf in app_state.items():
        _, fl = flatten(sf.state_dict(), prefix=k)
        if logical_path in fl:
            return obj_obs(fl[logical_path])
    return None


GLUE_CORPUS = [
    # keys "a" and "ab": one is a string prefix of the other; a key that needs escaping; replication globs
    {"app": {"a": ("dict", [("w", ("tensor", "int64", [1], "contiguous", 0)), ("p", ("prim", 1))]),
             "ab": ("odict", [("w", ("tensor", "int64", [1], "contiguous", 0)), ("l", ("list", [(None, ("obj", (1,))), (None, ("prim", 2))]))]),
             "x/y": ("dict", [(1, ("tensor", "int64", [1], "contiguous", 0)), ("k/s", ("prim", 3))])},
     "globs": ["a/*", "**"], "nobatch": False, "targets": {"a": "same", "ab": "same", "x/y": "same"}, "rng": "rng", "rng_restore": True,
     "order": False},
    {"app": {"m": ("dict", [("o", ("obj", {"not": "flattened", 1: 2, "1": 3})), ("e", ("list", [])), ("d", ("dict", []))]),
             "mm": ("dict", [("w", ("tensor", "int64", [1], "contiguous", 0))])},
     "globs": [], "nobatch": True, "targets": {"m": "empty", "mm": "other"}, "rng": "0rng", "rng_restore": False, "order": True},
]


def check_glue(ctx, res, cases=None):
    """the generated take / restore / read_object glue (model/GlueGenObs.v over gen/GlueGen.v) against the real Snapshot API"""
    rng = ctx.rng
    cases = cases if cases is not None else GLUE_CORPUS + [gen_glue_case(rng) for _ in range(ctx.n(30, 250))]
    t_cases, r_cases, o_cases, t_meta, r_meta, o_meta = [], [], [], [], [], []
    for case in cases:
        tin, obs = run_glue_case(ctx, case, res)
        nk = len(case["app"])
        res.case({"glue": {k: str(v)[:100] for k, v in case["app"].items()}, "globs": case["globs"], "nobatch": case["nobatch"],
                  "targets": case["targets"], "rng": case.get("rng")}, nontrivial=True)
        res.count("glue.n_keys", nk); res.count("glue.globs", len(case["globs"])); res.count("glue.rng", bool(case.get("rng")))
        for v in case["targets"].values():
            res.count("glue.target", v)
        if not obs:
            continue
        if "take" in obs:
            t_cases.append((tin, val(obs["take"]))); t_meta.append(case)
        if "restore" in obs:
            r_cases.append((f"({tin}, {obs['targets_term']}, true)", val(obs["restore"]))); r_meta.append(case)
        for p, o in obs.get("read_object", []):
            o_cases.append((f"({tin}, {s_term(p)})", val(o))); o_meta.append({"path": p, "case": case})
    for name, fn, cs, meta, ty in ((CORRESPONDENCES[4], "obs_take", t_cases, t_meta, "take_in"),
                                   (CORRESPONDENCES[5], "obs_take_restore", r_cases, r_meta, "take_in * list sf_in * bool"),
                                   (CORRESPONDENCES[6], "obs_read_object", o_cases, o_meta, "take_in * pystr")):
        bad, errs = coqrun.run_cases("C01_" + fn, GLUE_IMPORTS, fn, cs, shard=150, in_type=ty)
        for e in errs:
            res.mismatches.append(Mismatch(name, "coqc error", None, e))
        for i in bad:
            res.mismatches.append(Mismatch(name, meta[i], cs[i][1][:400], None))
        res.traces_validated += len(cs)


def check_sequences(ctx, res):
    """operation sequences through the public API in one process (props/seq_common.py)"""
    from props import seq_common as sq
    from props.C08 import C08Group
    counts = {}
    with C08Group(ctx):
        fails = []
        sq.run_scripted(ctx, fails, counts)
        res.case({"sequence": "scripted"}, nontrivial=True)
        for sig, what in fails:
            res.failures.append(Failure("C01:" + sig, what, {"sequence": "scripted"}))
        fails = []
        sq.run_statefuls(ctx, fails, counts)
        res.case({"sequence": "statefuls"}, nontrivial=True)
        for sig, what in fails:
            res.failures.append(Failure("C01:" + sig, what, {"sequence": "statefuls"}))
        for i in range(ctx.n(10, 60)):
            seed = ctx.rng.randrange(1 << 30)
            fails = []
            sq.run_sequence(ctx, seed, 14, fails, counts)
            res.case({"sequence_seed": seed, "ops": 14}, nontrivial=True)
            for sig, what in fails:
                res.failures.append(Failure("C01:" + sig, what, {"sequence_seed": seed, "ops": 14}))
    for k, v in counts.items():
        res.count("sequence.op", f"{k}={v}")


def correspond(ctx: Ctx) -> Result:
    res = Result(rule=RULE)
    rng = ctx.rng
    # the executable models must be current even when a proof obligation of this run stopped the build of props/C01.vo
    ok, out, _ = coqrun.make(["model/GlueGenObs.vo", "model/DispatchGenObs.vo", "model/Pipeline.vo"])
    if not ok:
        res.mismatches.append(Mismatch(CORRESPONDENCES[4], "generated model unavailable", None,
                                       "the generated models do not build: " + coqrun.error_excerpt(out, 8)))
    check_pieces(ctx, res)
    check_routing(ctx, res)
    check_sequences(ctx, res)
    check_glue(ctx, res)
    # corpus: the cases that used to fail (fixed) must keep passing
    corpus = [
        ({"m": ("dict", [("bf", ("tensor", "bfloat16", [3], "contiguous", 1)), ("z", ("tensor", "float32", [0, 3], "contiguous", 2)),
                         ("s", ("tensor", "int64", [], "contiguous", 3)), (1, ("prim", 5)), ("01", ("prim", 6))])},
         {"chunk": 1, "slab": 1, "nobatch": False, "budget": 1, "conc": 1}),
        ({"m": ("odict", [("w", ("tensor", "float64", [5, 2], "transposed", 4)), ("c", ("tensor", "complex64", [3], "contiguous", 5)),
                          ("o", ("obj", (1, "x", None))), ("nan", ("prim", float("nan")))])},
         {"chunk": 16, "slab": 40, "nobatch": True, "budget": 50, "conc": 2}),
    ]
    n = ctx.n(150, 1500)
    for i in range(n + len(corpus)):
        if i < len(corpus):
            app, knobs = corpus[i]
        else:
            app, knobs = gen_app(rng), gen_knobs(rng)
        keys = list(app.keys())
        for mode in (["inplace", "none", "wrong"] if (i < len(corpus) or ctx.thorough) else [rng.choice(["inplace", "none", "wrong"])]):
            subset = keys if rng.random() < 0.6 else rng.sample(keys, rng.randint(1, len(keys)))
            tag = f"knobs={knobs} mode={mode} subset={subset}"
            state = {k: sg.build(s, None) for k, s in app.items()}
            res.case({"app": {k: str(v)[:160] for k, v in app.items()}, "knobs": knobs, "mode": mode, "subset": subset},
                     nontrivial=any(has_tensor_elems(v) for v in state.values()))
            res.count("mode", mode); res.count("nobatch", knobs["nobatch"]); res.count("chunk", knobs["chunk"]); res.count("slab", knobs["slab"])
            res.count("budget", knobs["budget"]); res.count("conc", knobs["conc"]); res.count("n_keys", len(keys))
            path = take_restore(ctx, app, knobs, mode, subset, res, tag)
            if path:
                shutil.rmtree(os.path.dirname(path), ignore_errors=True)
    # known finding (quantized in-place restore keeps the destination's quantizer)
    quantized_inplace(ctx, res)
    return res


def quantized_inplace(ctx, res):
    import torch
    from torchsnapshot import Snapshot, StateDict
    root = ctx.scratch("q")
    try:
        src = torch.quantize_per_tensor(torch.tensor([-0.5, -0.25, 0.0]), 0.25, 3, torch.qint8)
        with safe_gc():
            Snapshot.take(os.path.join(root, "s"), {"m": StateDict({"q": src})})
            dst = torch.quantize_per_tensor(torch.zeros(3), 1.0, 0, torch.qint8)
            tgt = {"m": StateDict({"q": dst})}
            Snapshot(os.path.join(root, "s")).restore(tgt)
        got = tgt["m"]["q"]
        res.case({"quantized_inplace": True}, nontrivial=True)
        if not torch.equal(got.dequantize(), src.dequantize()):
            res.failures.append(Failure("C01:quantized-inplace-restore-keeps-destination-qparams",
                                        f"in-place restore of a qint8 tensor: values {got.dequantize().tolist()} instead of {src.dequantize().tolist()} "
                                        f"(scale {got.q_scale()} / zero point {got.q_zero_point()} of the destination kept)", {"quantized": True}))
    except Exception as e:  # noqa
        res.notes.append(f"quantized in-place probe raised {type(e).__name__}: {str(e)[:120]}")
    finally:
        shutil.rmtree(root, ignore_errors=True)


def replay(ctx: Ctx, data):
    if data.get("quantized"):
        r = Result(); quantized_inplace(ctx, r)
        return r.failures[0] if r.failures else None
    if data.get("sequence") in ("scripted", "statefuls"):
        from props import seq_common as sq
        from props.C08 import C08Group
        fails = []
        with C08Group(ctx):
            (sq.run_scripted if data["sequence"] == "scripted" else sq.run_statefuls)(ctx, fails, {})
        return Failure("C01:" + fails[0][0], fails[0][1], data) if fails else None
    if "sequence_seed" in data:
        from props import seq_common as sq
        from props.C08 import C08Group
        fails = []
        with C08Group(ctx):
            sq.run_sequence(ctx, data["sequence_seed"], data["ops"], fails, {})
        return Failure("C01:" + fails[0][0], fails[0][1], data) if fails else None
    if "glue" in data:
        r = Result()

        def fixs(x):
            if isinstance(x, list):
                return tuple(fixs(y) for y in x) if x and isinstance(x[0], str) and x[0] in ("tensor", "prim", "obj", "dict", "odict", "list") else [fixs(y) for y in x]
            return x
        case = dict(data["glue"])
        case["app"] = {k: fixs(v) for k, v in case["app"].items()}
        run_glue_case(ctx, case, r)
        return r.failures[0] if r.failures else None
    if "app" not in data:
        return None
    r = Result()

    def fix(s):
        if isinstance(s, list):
            return tuple(fix(x) for x in s) if s and isinstance(s[0], str) and s[0] in ("tensor", "prim", "obj", "dict", "odict", "list") else [fix(x) for x in s]
        return s
    app = {k: fix(v) for k, v in data["app"].items()}
    p = take_restore(ctx, app, data["knobs"], data["mode"], data["subset"], r, "replay")
    if p:
        shutil.rmtree(os.path.dirname(p), ignore_errors=True)
    return r.failures[0] if r.failures else None


MANIFEST = {
    "level_text": ("Machine-checked proof (Coq 8.16.1) by composition: C01's own theorems compose the tensor data path at the byte "
                   "level - pieces staged by prepare_write (one piece or dim-0 chunks for every chunk knob >= 1) concatenate to the "
                   "tensor's bytes, and through slab batching (every threshold >= 1, any request order, any staging completion "
                   "order), storage, merged/ranged reads (any read order) the bytes reassembled for a leaf equal its original "
                   "bytes; containers/keys/order (C15), metadata (C14), bits<->bytes for every layout (C17), planning (C16), "
                   "exactly-once pipelines (C11), manifest view (C07) are the component theorems. The GLUE that wires them "
                   "together is regenerated from snapshot.py on every run (translator/gen_glue.py, statement by statement, fail "
                   "closed) and proved over the generated terms: take then restore of any subset of the statefuls hands every "
                   "load_state_dict exactly the object state_dict() returned (container types, keys with types, order, leaves), "
                   "take calls prepare_write once per leaf with the right path / rank / replicated / async flag, restore offers "
                   "the target's own tensor as in-place destination, the manifest lists every container entry and exactly one "
                   "entry per leaf under <rank>/<logical path>, read_object returns the leaf stored for a path and raises for "
                   "unknown paths. The real API is tied in by sampling the full product (structure x dtypes x shapes x layouts "
                   "x knobs x targets x key subsets) with bit-exact comparison, by comparing the staged pieces with the model and "
                   "by running the generated glue against the real take / restore / read_object on id-carrying states."),
    "level_note": ("Trusted: Coq kernel+VM; translators gen_glue / gen_dispatch / gen_chunk / gen_flatten(_rec); the composition is by "
                   "shared interfaces (byte lists, piece ids, opaque leaves + component laws listed as hypotheses and proved for the "
                   "one-rank world); the component models are tied to the code by their own correspondences; torch.save/load is an "
                   "oracle pair; storage locations assumed distinct (C05; proved in the one-rank world from non-empty keys). Not "
                   "proved: the RNGState-first/last ordering inside the glue theorem (run, not proved; C19 owns it), multi-rank "
                   "partitioning of replicated entries, sharded leaves. Quantized in-place restore is a known finding. No axioms."),
    "technique": ("Coq composition theorems over the component models (byte-level data path) + theorems over the statement-by-statement "
                  "translation of the snapshot.py glue (option monad, effects log, abstract world with laws) + bit-exact sampling of "
                  "the knob/layout/target product and differential runs of the generated glue on the real API"),
    "design_ref": "DESIGN.md section 5, C01",
}
