"""C17 - Tensor (de)serialization is bit-exact for every supported dtype and layout."""
from __future__ import annotations

import asyncio
import itertools
import struct

from lib import coqrun
from lib.core import Ctx, Failure, Mismatch, Result
from lib.tocoq import term, val

PROP = "C17"
PROPS_FILE = "props/C17.v"
GEN = ["gen_dtype"]
CORRESPONDENCES = [
    "dtype:generated-tables~serialization.py",
    "dtype:reference-sizes~torch",
    "stager:copy-guard-and-dispatch~translation",
    "layout:tensor_as_memoryview~model",
    "layout:gather-of-ids~model",
    "layout:tensor_from_memoryview~model",
]
RULE = ("dtypes = ALL_SUPPORTED_DTYPES of the source (+ unsupported ones for the table lookups) x layouts built with real torch "
        "view ops (contiguous, permuted, step-sliced, storage offset, expand/stride 0, select/0-d, zero-length dims, size-1 dims "
        "with arbitrary strides, random as_strided incl. overlapping) x shapes of 0-4 dims with element counts 0..N (every count "
        "0..17 in 1-D per dtype, odd counts, larger ones) x storage filled with raw random bytes plus special bit patterns "
        "(NaN payloads, -0.0, infinities, subnormals, integer extremes) x destination kinds (fresh, contiguous, transposed, "
        "strided). Expected bytes are gathered from the raw storage bytes with offset + sum idx*stride in Python and, for small "
        "cases, by the Coq model inside coqc. A case is non-trivial when the tensor has at least one element; distinct by "
        "(dtype, shape, strides, offset, content hash).")
TRUSTED = [
    "Coq 8.16.1 kernel and its vm_compute VM (no native_compute)",
    "translator/gen_dtype.py (Python ast -> Gallina tables and the typed copy guard; fail closed; its output is compared "
    "with the running module on every run)",
    "hand-written model coq/model/Layout.v (index arithmetic, lengths, the carrier rule, the empty branches) tied to the code "
    "by differential runs; coq/model/Dtype.v reference element sizes compared with torch on every run",
    "torch / numpy run time: Tensor.contiguous(), clone(), copy_(), numpy(), memoryview.cast, frombuffer, reshape move and "
    "reinterpret bytes without changing them - modelled as identity on bytes, NOT verified, checked differentially here",
    "torch.save / torch.load (complex and quantized dtypes): oracle pair with the assumed law load(save x) = x "
    "(theorem C17_torch_save_path_partial), exercised here",
    "harness/props/C17.py generators, byte gathering and lib/tocoq.py literal printer",
]
ASSUMPTIONS = [
    "wf_layout: shape entries >= 0, one stride per dimension, every multi-index lands inside the storage (implied by "
    "torch's own view validity check, theorem C17_valid_view_is_wf); strides are non-negative as PyTorch guarantees",
    "0 < esize and every element occupies exactly esize bytes (theorems quantify over every such encoding)",
    "'recorded dtype' is read as: the string stored in the manifest entry is the name PyTorch prints for the dtype (str(dtype))",
    "torch.get_default_dtype() is float32 (meaning of a carrier torch.empty((0)) without dtype)",
    "bool storage holds only the bytes 0 and 1 (other bit patterns cannot be produced by torch operations)",
    "quantized dtypes: 'bits' = int_repr(); loading into an existing quantized destination is compared with equal "
    "q-params (a destination with different q-params keeps its own: outside the property text, recorded as a note)",
]

IMP_DTYPE = "From TS Require Import model.Dtype gen.DtypeGen.\n"
IMP_LAYOUT = "From TS Require Import model.Layout.\n"


# =========================================================================== helpers (torch imported lazily)
def C17_run(coro):
    loop = asyncio.new_event_loop()
    try:
        return loop.run_until_complete(coro)
    finally:
        loop.close()


def C17_name(d) -> str:
    s = str(d)
    return s[6:] if s.startswith("torch.") else s


def C17_gather(raw: bytes, es: int, shape, strides, offset: int) -> bytes:
    """Bytes of the elements of a strided view, row-major, by index arithmetic on the raw storage bytes."""
    out = bytearray()
    for idx in itertools.product(*[range(d) for d in shape]):
        k = offset + sum(i * s for i, s in zip(idx, strides))
        assert 0 <= k and (k + 1) * es <= len(raw), "index outside the storage"
        out += raw[k * es:(k + 1) * es]
    return bytes(out)


def C17_storage_bytes(t) -> bytes:
    import torch
    st = t.untyped_storage()
    if st.nbytes() == 0:
        return b""
    u = torch.empty(0, dtype=torch.uint8)
    u.set_(st)
    return u.numpy().tobytes()


def C17_bits(t) -> bytes:
    """Bit content of a (non-quantized) tensor without contiguous(): gather over its own storage bytes."""
    return C17_gather(C17_storage_bytes(t), t.element_size(), list(t.shape), list(t.stride()), t.storage_offset())


FLOAT_FMT = {"float64": (11, 52), "float32": (8, 23), "float16": (5, 10), "bfloat16": (8, 7)}


def C17_special_patterns(name: str, es: int):
    """Little-endian byte patterns worth having in the storage."""
    pats = [0, (1 << (8 * es)) - 1, 1 << (8 * es - 1), (1 << (8 * es - 1)) - 1, 1, 0x80]
    if name in FLOAT_FMT:
        e, m = FLOAT_FMT[name]
        ones = ((1 << e) - 1) << m
        pats += [ones, ones | (1 << (e + m)),                      # +inf, -inf
                 ones | 1, ones | (1 << (m - 1)) | 0x15 % (1 << (m - 1)),   # sNaN payload 1, qNaN with payload
                 ones | (1 << (e + m)) | ((1 << m) - 1),            # -NaN, full payload
                 (1 << m) - 1, 1 << m, (ones - (1 << m)) | ((1 << m) - 1)]  # largest subnormal, smallest normal, max
    return [p.to_bytes(es, "little") for p in pats if p < (1 << (8 * es))]


def C17_raw(rng, name: str, es: int, n_elems: int) -> bytes:
    if name == "bool":
        return bytes(rng.randrange(2) for _ in range(n_elems))
    raw = bytearray(rng.getrandbits(8) for _ in range(n_elems * es))
    pats = C17_special_patterns(name, es)
    for k in range(n_elems):
        if rng.random() < 0.3:
            raw[k * es:(k + 1) * es] = rng.choice(pats)
    return bytes(raw)


def C17_base(raw: bytes, dtype):
    """1-D tensor of `dtype` whose storage bytes are exactly `raw` (written through a uint8 view)."""
    import torch
    u = torch.tensor(list(raw), dtype=torch.uint8) if raw else torch.empty(0, dtype=torch.uint8)
    return u.view(dtype)


# --------------------------------------------------------------------------- layouts (built with real torch view ops)
DIMS = [1, 1, 2, 2, 3, 3, 4, 5, 7]


def C17_shape(rng, ndim=None, cap=64, lo=0):
    ndim = rng.choice([0, 1, 1, 2, 2, 3, 3, 4]) if ndim is None else ndim
    ndim = max(ndim, lo)
    while True:
        sh = [rng.choice(DIMS) for _ in range(ndim)]
        p = 1
        for d in sh:
            p *= d
        if p <= cap:
            return sh


def C17_prod(sh):
    p = 1
    for d in sh:
        p *= d
    return p


def C17_layout(rng, kind: str, cap: int):
    """-> (n_storage_elems, build(base) -> view)"""
    import torch
    if kind == "contiguous":
        sh = C17_shape(rng, cap=cap)
        if rng.random() < 0.25:
            sh = [rng.choice([cap // 2 + 1, cap, 2 * cap + 1, 33, 129])]
        return C17_prod(sh), lambda b: b.reshape(sh)
    if kind == "permuted":
        sh = C17_shape(rng, cap=cap, lo=2)
        perm = list(range(len(sh)))
        while perm == sorted(perm) and C17_prod(sh) > 1 and len([d for d in sh if d > 1]) > 1:
            rng.shuffle(perm)
        if perm == sorted(perm):
            perm = perm[::-1]
        return C17_prod(sh), lambda b: b.reshape(sh).permute(perm)
    if kind == "step":
        sh = C17_shape(rng, cap=cap, lo=1)
        sl = tuple(slice(rng.choice([0, 0, 1]), None, rng.choice([1, 2, 2, 3])) for _ in sh)
        return C17_prod(sh), lambda b: b.reshape(sh)[sl]
    if kind == "offset":
        sh = C17_shape(rng, cap=cap)
        k, tail = rng.choice([1, 1, 2, 3, 5]), rng.choice([0, 1, 4])
        n = C17_prod(sh)
        return k + n + tail, lambda b: b[k:k + n].reshape(sh)
    if kind == "expand":
        sh = C17_shape(rng, cap=cap, lo=1)
        mask = [rng.random() < 0.5 for _ in sh]
        if not any(mask):
            mask[rng.randrange(len(sh))] = True
        sh1 = [1 if m else d for d, m in zip(sh, mask)]
        return C17_prod(sh1), lambda b: b.reshape(sh1).expand(sh)
    if kind == "scalar":
        n = rng.choice([1, 2, 6])
        k = rng.randrange(n)
        if rng.random() < 0.3:
            return 1, lambda b: b.reshape(())
        return n, lambda b: b[k]
    if kind == "select":
        sh = C17_shape(rng, cap=cap, lo=2)
        ax = rng.randrange(len(sh))
        j = rng.randrange(sh[ax])
        return C17_prod(sh), lambda b: b.reshape(sh).select(ax, j)
    if kind == "zero":
        nd = rng.choice([1, 2, 2, 3, 4])
        sh = [rng.choice([1, 2, 3]) for _ in range(nd)]
        sh[rng.randrange(nd)] = 0
        if rng.random() < 0.3:
            sh[rng.randrange(nd)] = 0
        mode = rng.choice(["reshape", "slice", "offset"])
        if mode == "reshape":
            return rng.choice([0, 0, 3]), lambda b: b[:0].reshape(sh)
        if mode == "offset":
            return 5, lambda b: b[2:2].reshape(sh)
        full = [d if d > 0 else 3 for d in sh]
        sl = tuple(slice(None) if d > 0 else slice(1, 1) for d in sh)
        return C17_prod(full), lambda b: b.reshape(full)[sl]
    if kind == "as_strided":
        sh = C17_shape(rng, cap=min(cap, 48))
        st = [rng.choice([0, 1, 1, 2, 3, 4]) for _ in sh]
        off = rng.choice([0, 0, 1, 3])
        need = off + sum((d - 1) * s for d, s in zip(sh, st)) + 1 + rng.choice([0, 2])
        return need, lambda b: torch.as_strided(b, sh, st, off)
    if kind == "size1":
        sh = C17_shape(rng, ndim=rng.choice([1, 2, 3]), cap=cap)
        ins = rng.randrange(len(sh) + 1)
        sh = sh[:ins] + [1] + sh[ins:]
        st, p = [], 1
        for d in reversed(sh):
            st.append(p if d != 1 else rng.choice([0, 1, 17, 1000]))
            p *= d
        st = st[::-1]
        off = rng.choice([0, 2])
        return off + C17_prod(sh), lambda b: torch.as_strided(b, sh, st, off)
    raise AssertionError(kind)


KINDS = ["contiguous", "permuted", "step", "offset", "expand", "scalar", "select", "zero", "as_strided", "size1"]


def C17_dest(rng, kind: str, shape, dtype):
    """A destination tensor of the given shape for TensorIOPreparer.prepare_read (never overlapping)."""
    import torch
    if kind == "none":
        return None
    if kind == "contig" or len(shape) == 0:
        return torch.zeros(shape, dtype=dtype)
    if kind == "transposed":
        perm = list(range(len(shape)))[::-1]
        return torch.zeros([shape[p] for p in perm], dtype=dtype).permute(perm)
    big = [2 * d for d in shape]
    return torch.zeros(big, dtype=dtype)[tuple(slice(1, None, 2) for _ in shape)]


def C17_numel_class(n: int) -> str:
    return "0" if n == 0 else "1" if n == 1 else "odd" if n % 2 else "even"


def C17_compare(res: Result, where: str, tag: str, imports: str, fn: str, cases, meta, shard: int = 300):
    """Model vs implementation on every case; for the first disagreement also print what the model computes."""
    bad, errs = coqrun.run_cases(tag, imports, fn, cases, shard=shard)
    for e in errs:
        res.mismatches.append(Mismatch(where, "coqc error", None, e))
    for n, i in enumerate(bad):
        model = None
        if n == 0:
            out = coqrun.eval_terms(tag + "_show", imports, [f"({fn}) {cases[i][0]}"])
            model = " ".join(out.split())[:1500]
        res.mismatches.append(Mismatch(where, meta[i], cases[i][1][:1500], model))
    res.traces_validated += len(cases)


# =========================================================================== part A: tables, guard
def check_tables(ctx: Ctx, res: Result):
    import torch
    from torchsnapshot import serialization as S

    assert torch.get_default_dtype() == torch.float32
    all_d = list(S.ALL_SUPPORTED_DTYPES)
    extra = [getattr(torch, n) for n in ("uint16", "uint32", "uint64", "float8_e4m3fn", "float8_e5m2", "quint4x2", "complex32")
             if hasattr(torch, n)]
    cases_s, cases_z, cases_inv, cases_ref = [], [], [], []

    def elem_size(d):
        if d in (torch.qint8, torch.quint8, torch.qint32, getattr(torch, "quint4x2", None)):
            try:
                return torch._empty_affine_quantized((0,), scale=1.0, zero_point=0, dtype=d).element_size()
            except Exception:
                res.notes.append(f"element size of {d} not obtainable from torch (no quantized backend): skipped")
                return None
        return torch.empty(0, dtype=d).element_size()

    strings = []
    for d in all_d + extra:
        name = C17_name(d)
        res.case({"kind": "table", "dtype": name}, nontrivial=True)
        res.count("table.dtype", "supported" if d in all_d else "unsupported")
        try:
            s = S.dtype_to_string(d)
        except ValueError:
            s = None
        try:
            z = S.dtype_to_element_size(d)
        except ValueError:
            z = None
        cases_s.append((term(name), val(None if s is None else [s])))
        cases_z.append((term(name), val(None if z is None else [z])))
        real = elem_size(d)
        if d in all_d:
            # ---- direct oracle -------------------------------------------------
            if s is None or z is None:
                res.failures.append(Failure(f"C17:supported-dtype-missing-from-table:{name}",
                                            f"{d}: dtype_to_string -> {s!r}, dtype_to_element_size -> {z!r}",
                                            {"kind": "table", "dtype": name}))
                continue
            strings.append(s)
            if s != str(d):
                res.failures.append(Failure(f"C17:recorded-dtype-string-is-not-the-torch-name:{name}",
                                            f"dtype_to_string({d}) = {s!r}, a reader of the manifest expects {str(d)!r}",
                                            {"kind": "table", "dtype": name}))
            try:
                back = S.string_to_dtype(s)
            except ValueError:
                back = None
            if back is not d:
                res.failures.append(Failure(f"C17:dtype-string-not-bijective:{name}",
                                            f"string_to_dtype(dtype_to_string({d})) = {back} (string {s!r})",
                                            {"kind": "table", "dtype": name}))
            if real is not None and z != real:
                res.failures.append(Failure(f"C17:element-size-differs-from-torch:{name}",
                                            f"dtype_to_element_size({d}) = {z}, torch says {real}",
                                            {"kind": "table", "dtype": name}))
        if real is not None and (d in all_d):
            cases_ref.append((term(name), val([real])))
    for d in S.BUFFER_PROTOCOL_SUPPORTED_DTYPES:
        if d not in all_d:
            res.failures.append(Failure(f"C17:buffer-protocol-dtype-not-supported:{C17_name(d)}",
                                        f"{d} in BUFFER_PROTOCOL_SUPPORTED_DTYPES but not in ALL_SUPPORTED_DTYPES",
                                        {"kind": "table", "dtype": C17_name(d)}))
    for s in strings + ["", "float64", "torch.float", "torch.float640", "torch.uint16", "Torch.int8", "torch.bool "]:
        try:
            back = S.string_to_dtype(s)
        except ValueError:
            back = None
        cases_inv.append((term(s), val(None if back is None else [C17_name(back)])))

    for tag, fn, cs, where in (
            ("C17_ts", "obs_get_str dtype_to_string_table", cases_s, "dtype:generated-tables~serialization.py"),
            ("C17_tz", "obs_get_size dtype_to_element_size_table", cases_z, "dtype:generated-tables~serialization.py"),
            ("C17_ti", "obs_get_str string_to_dtype_table", cases_inv, "dtype:generated-tables~serialization.py"),
            ("C17_tr", "obs_ref_size", cases_ref, "dtype:reference-sizes~torch")):
        bad, errs = coqrun.run_cases(tag, IMP_DTYPE, fn, cs)
        for e in errs:
            res.mismatches.append(Mismatch(where, "coqc error", None, e))
        for i in bad:
            res.mismatches.append(Mismatch(where, {"fn": fn, "input": cs[i][0]}, cs[i][1], None))
        res.traces_validated += len(cs)


def check_guard(ctx: Ctx, res: Result):
    import torch
    from torchsnapshot.io_preparers.tensor import TensorBufferStager
    from torchsnapshot.manifest import TensorEntry
    from torchsnapshot.serialization import Serializer

    where = "stager:copy-guard-and-dispatch~translation"
    sers = [m.value for m in Serializer] + ["", "Serializer.BUFFER_PROTOCOL", "BUFFER_PROTOCOL", "buffer_protocol ", "torch_save\n"]
    tensors = {  # (is_contiguous, nelement != storage size)
        (True, False): torch.arange(6, dtype=torch.float32).reshape(2, 3),
        (True, True): torch.arange(6, dtype=torch.float32)[2:4],
        (False, False): torch.arange(6, dtype=torch.float32).reshape(2, 3).t(),
        (False, True): torch.arange(6, dtype=torch.float32)[::2],
    }
    for (c, n), t in tensors.items():
        assert t.is_contiguous() == c and (t.nelement() != t.storage().size()) == n
    guard, kind = [], []
    for s in sers:
        for a in (False, True):
            for (c, n), t in tensors.items():
                entry = TensorEntry(location="x", serializer=s, dtype="torch.float32", shape=list(t.shape), replicated=False)
                st = TensorBufferStager(tensor=t, entry=entry, is_async_snapshot=a, _tensor_prepare_func=None)
                real = bool(st._should_copy_cpu_tensor())
                guard.append((f"({term(s)}, ({term(a)}, {term(c)}, {term(n)}))", val(real)))
                res.case({"kind": "guard", "serializer": s, "async": a, "contiguous": c, "view": n}, nontrivial=True)
                res.count("guard.result", real)
        entry = TensorEntry(location="x", serializer=s, dtype="torch.float32", shape=[2, 3], replicated=False)
        st = TensorBufferStager(tensor=tensors[(True, False)], entry=entry, is_async_snapshot=False, _tensor_prepare_func=None)
        try:
            buf = C17_run(st.stage_buffer())
            k = 2 if isinstance(buf, memoryview) else 1
        except ValueError:
            k = 0
        kind.append((term(s), val(k)))
    fn_g = "(fun x : list Z * (bool * bool * bool) => let '(s, (a, c, n)) := x in vbool (should_copy_cpu_tensor s a c n))"
    fn_k = "(fun s => VZ (stage_kind s))"
    for tag, fn, cs in (("C17_g", fn_g, guard), ("C17_k", fn_k, kind)):
        bad, errs = coqrun.run_cases(tag, IMP_DTYPE, fn, cs)
        for e in errs:
            res.mismatches.append(Mismatch(where, "coqc error", None, e))
        for i in bad:
            res.mismatches.append(Mismatch(where, {"fn": tag, "input": cs[i][0]}, cs[i][1], None))
        res.traces_validated += len(cs)


# =========================================================================== part B: layouts, buffer protocol + torch_save
def C17_case_record(name, raw, t, is_async, dest):
    return {"kind": "layout", "dtype": name, "raw": list(raw), "shape": list(t.shape), "strides": list(t.stride()),
            "offset": int(t.storage_offset()), "async": bool(is_async), "dest": dest}


def C17_cls(t) -> str:
    return "empty" if t.nelement() == 0 else ("contiguous" if t.is_contiguous() else "noncontiguous")


def run_bp_case(name, dtype, raw, t, is_async, dest_kind, rng):
    """Run the real code on one buffer-protocol tensor.  -> (failures, observed memoryview bytes or None)"""
    import torch
    from torchsnapshot.io_preparers.tensor import TensorIOPreparer
    from torchsnapshot.serialization import Serializer, dtype_to_element_size, tensor_as_memoryview, tensor_from_memoryview

    fails = []
    es = dtype_to_element_size(dtype)
    shape, strides, off = list(t.shape), list(t.stride()), int(t.storage_offset())
    expected = C17_gather(raw, t.element_size(), shape, strides, off)
    rec = C17_case_record(name, raw, t, is_async, dest_kind)
    cls = C17_cls(t)

    def fail(what, msg):
        fails.append(Failure(f"C17:{what}:{name}:{cls}", f"{msg} [dtype={name} shape={shape} strides={strides} offset={off}]", rec))

    # 1. tensor_as_memoryview ------------------------------------------------
    got = None
    try:
        got = bytes(tensor_as_memoryview(t))
    except Exception as e:
        fail("tensor_as_memoryview-raises", f"tensor_as_memoryview raised {type(e).__name__}: {str(e)[:120]}")
    if got is not None:
        if len(got) != es * t.nelement():
            fail("serialized-length", f"serialized length {len(got)} != element size {es} * {t.nelement()} elements")
        elif got != expected:
            fail("serialized-bytes", f"serialized bytes differ from the view's elements: {list(got)[:24]} vs {list(expected)[:24]}")
    # 2. tensor_from_memoryview ------------------------------------------------
    if got is not None:
        try:
            back = tensor_from_memoryview(memoryview(got), dtype, shape)
            if back.dtype != dtype or list(back.shape) != shape:
                fail("deserialized-dtype-or-shape", f"tensor_from_memoryview gave dtype {back.dtype} shape {list(back.shape)}")
            elif C17_bits(back) != expected:
                fail("deserialized-bits", "tensor_from_memoryview(tensor_as_memoryview(t)) has different bits")
        except Exception as e:
            fail("tensor_from_memoryview-raises", f"tensor_from_memoryview raised {type(e).__name__}: {str(e)[:120]}")
    # 3. stager -> consumer -----------------------------------------------------
    try:
        entry, wrs = TensorIOPreparer.prepare_write("loc", t, is_async_snapshot=is_async)
        if entry.serializer != Serializer.BUFFER_PROTOCOL.value:
            fail("entry-serializer", f"entry.serializer = {entry.serializer!r} for a buffer-protocol dtype")
        if entry.dtype != str(dtype) or list(entry.shape) != shape:
            fail("entry-dtype-or-shape", f"entry records dtype {entry.dtype!r} shape {entry.shape}")
        buf = C17_run(wrs[0].buffer_stager.stage_buffer())
        staged = bytes(buf)
        if len(staged) != es * t.nelement():
            fail("staged-length", f"staged buffer has {len(staged)} bytes != {es} * {t.nelement()}")
        elif staged != expected:
            fail("staged-bytes", "staged buffer differs from the view's elements")
        dest = C17_dest(rng, dest_kind, shape, dtype)
        rrs, fut = TensorIOPreparer.prepare_read(entry, dest)
        for rr in rrs:
            C17_run(rr.buffer_consumer.consume_buffer(staged))
        out = fut.obj
        if out.dtype != dtype or list(out.shape) != shape:
            fail("roundtrip-dtype-or-shape", f"stager->consumer gave dtype {out.dtype} shape {list(out.shape)}")
        elif C17_bits(out) != expected:
            fail("roundtrip-bits", f"stager->consumer (dest={dest_kind}, async={is_async}) result has different bits")
        # 4. the same through the TILED read (a buffer limit: what read_object(memory_budget_bytes=..) uses): every tile
        # consumes its byte range of the staged buffer, tiles in reverse order
        if t.nelement() > 0:
            for limit in (1, max(1, (es * t.nelement()) // 2), es * t.nelement() + 1):
                dest = C17_dest(rng, dest_kind, shape, dtype)
                rrs, fut = TensorIOPreparer.prepare_read(entry, dest, buffer_size_limit_bytes=limit)
                for rr in reversed(rrs):
                    lo, hi = rr.byte_range if rr.byte_range is not None else (0, len(staged))
                    C17_run(rr.buffer_consumer.consume_buffer(staged[lo:hi]))
                out = fut.obj
                if out.dtype != dtype or list(out.shape) != shape:
                    fail("tiled-roundtrip-dtype-or-shape", f"tiled read (limit {limit}, {len(rrs)} tiles, dest={dest_kind}) gave dtype {out.dtype} shape {list(out.shape)}")
                elif C17_bits(out) != expected:
                    fail("tiled-roundtrip-bits", f"tiled read (limit {limit}, {len(rrs)} tiles, dest={dest_kind}) result has different bits")
        # 5. the same tensor saved in CHUNKS (ChunkedTensorIOPreparer: what every tensor above the chunk knob goes
        # through) and read back into: nothing / a matching destination / a destination of ANOTHER dtype (it must be
        # replaced by a tensor of the recorded dtype and shape, not returned untouched)
        if t.nelement() > 1 and t.dim() >= 1 and t.shape[0] > 1:
            from torchsnapshot.io_preparers.chunked_tensor import ChunkedTensorIOPreparer
            csz = max(1, (es * t.nelement()) // 2)
            inst = ChunkedTensorIOPreparer.chunk_tensor(t, chunk_sz_bytes=csz)
            centry, cwrs = ChunkedTensorIOPreparer.prepare_write("loc", t, chunking_instruction=inst, is_async_snapshot=is_async)
            cbufs = {w.path: bytes(C17_run(w.buffer_stager.stage_buffer())) for w in cwrs}
            other = torch.float64 if dtype != torch.float64 else torch.int32
            for dk in ("none", "same", "other-dtype"):
                dest = None if dk == "none" else torch.zeros(shape, dtype=dtype if dk == "same" else other)
                rrs, fut = ChunkedTensorIOPreparer.prepare_read(centry, dest)
                for rr in rrs:
                    b = cbufs[rr.path]
                    C17_run(rr.buffer_consumer.consume_buffer(b if rr.byte_range is None else b[rr.byte_range[0]:rr.byte_range[1]]))
                out = fut.obj
                if out.dtype != dtype or list(out.shape) != shape:
                    fail("chunked-roundtrip-dtype-or-shape", f"chunked read ({len(inst)} chunks, destination {dk}) gave dtype {out.dtype} shape {list(out.shape)}")
                elif C17_bits(out) != expected:
                    fail("chunked-roundtrip-bits", f"chunked read ({len(inst)} chunks, destination {dk}) result has different bits")
    except Exception as e:
        fail("stager-consumer-raises", f"stager->consumer raised {type(e).__name__}: {str(e)[:120]}")
    return fails, got


def run_complex_case(name, dtype, raw, t, is_async, dest_kind, rng):
    from torchsnapshot.io_preparers.tensor import TensorIOPreparer
    from torchsnapshot.serialization import Serializer

    fails = []
    shape, strides, off = list(t.shape), list(t.stride()), int(t.storage_offset())
    expected = C17_gather(raw, t.element_size(), shape, strides, off)
    rec = C17_case_record(name, raw, t, is_async, dest_kind)
    cls = C17_cls(t)

    def fail(what, msg):
        fails.append(Failure(f"C17:{what}:{name}:{cls}", f"{msg} [dtype={name} shape={shape} strides={strides} offset={off}]", rec))
    try:
        entry, wrs = TensorIOPreparer.prepare_write("loc", t, is_async_snapshot=is_async)
        if entry.serializer != Serializer.TORCH_SAVE.value:
            fail("entry-serializer", f"entry.serializer = {entry.serializer!r} for {name}")
        if entry.dtype != str(dtype) or list(entry.shape) != shape:
            fail("entry-dtype-or-shape", f"entry records dtype {entry.dtype!r} shape {entry.shape}")
        staged = bytes(C17_run(wrs[0].buffer_stager.stage_buffer()))
        dest = C17_dest(rng, dest_kind, shape, dtype)
        rrs, fut = TensorIOPreparer.prepare_read(entry, dest)
        for rr in rrs:
            C17_run(rr.buffer_consumer.consume_buffer(staged))
        out = fut.obj
        if out.dtype != dtype or list(out.shape) != shape:
            fail("roundtrip-dtype-or-shape", f"stager->consumer gave dtype {out.dtype} shape {list(out.shape)}")
        elif C17_bits(out) != expected:
            fail("roundtrip-bits", f"torch_save stager->consumer (dest={dest_kind}) result has different bits")
    except Exception as e:
        fail("stager-consumer-raises", f"stager->consumer raised {type(e).__name__}: {str(e)[:120]}")
    return fails


QINT = {"qint8": ("int8", 1), "quint8": ("uint8", 1), "qint32": ("int32", 4)}


def C17_qtensor(name, raw, shape, strides, off, scale, zp, per_channel_axis=None):
    """A quantized view: int_repr bytes = raw, viewed with (shape, strides, off)."""
    import torch
    it = getattr(torch, QINT[name][0])
    ints = torch.as_strided(C17_base(raw, it), shape, strides, off)
    if per_channel_axis is None:
        return torch._make_per_tensor_quantized_tensor(ints.contiguous(), scale, zp), ints
    n = shape[per_channel_axis]
    scales = torch.tensor([scale * (k + 1) for k in range(n)], dtype=torch.float64)
    zps = torch.tensor([(zp + k) % 100 for k in range(n)], dtype=torch.int64)
    return torch._make_per_channel_quantized_tensor(ints.contiguous(), scales, zps, per_channel_axis), ints


def run_quant_case(name, rec, res: Result | None):
    """rec: {dtype, raw, shape(base), perm, scale, zp, axis, dest}.  The quantized tensor is built contiguous with the base
    shape and then permuted (a real view op on a quantized tensor)."""
    import torch
    from torchsnapshot.io_preparers.tensor import TensorBufferConsumer, TensorIOPreparer
    from torchsnapshot.serialization import Serializer

    fails = []
    dtype = getattr(torch, name)
    bshape, perm = rec["shape"], rec["perm"]
    raw = bytes(rec["raw"])
    bstr, p = [], 1
    for d in reversed(bshape):
        bstr.append(p)
        p *= d
    q0, _ = C17_qtensor(name, raw, bshape, bstr[::-1], 0, rec["scale"], rec["zp"], rec["axis"])
    q = q0.permute(perm) if perm else q0
    shape = list(q.shape)
    expected = C17_bits(q.int_repr()) if q.nelement() else b""
    cls = C17_cls(q)

    def fail(what, msg):
        fails.append(Failure(f"C17:{what}:{name}:{cls}", f"{msg} [dtype={name} shape={shape} strides={list(q.stride())}]",
                             dict(rec, kind="quant")))

    def same_qparams(a, b):
        if a.qscheme() != b.qscheme():
            return False
        if a.qscheme() == torch.per_tensor_affine:
            return a.q_scale() == b.q_scale() and a.q_zero_point() == b.q_zero_point()
        return (torch.equal(a.q_per_channel_scales(), b.q_per_channel_scales())
                and torch.equal(a.q_per_channel_zero_points(), b.q_per_channel_zero_points())
                and a.q_per_channel_axis() == b.q_per_channel_axis())
    try:
        entry, wrs = TensorIOPreparer.prepare_write("loc", q, is_async_snapshot=rec["async"])
        if entry.serializer != Serializer.TORCH_SAVE.value:
            fail("entry-serializer", f"entry.serializer = {entry.serializer!r} for {name}")
        if entry.dtype != str(dtype) or list(entry.shape) != shape:
            fail("entry-dtype-or-shape", f"entry records dtype {entry.dtype!r} shape {entry.shape}")
        staged = bytes(C17_run(wrs[0].buffer_stager.stage_buffer()))
        back = TensorBufferConsumer.deserialize_tensor(staged, entry)
        if back.dtype != dtype or list(back.shape) != shape:
            fail("roundtrip-dtype-or-shape", f"deserialize_tensor gave dtype {back.dtype} shape {list(back.shape)}")
        elif (C17_bits(back.int_repr()) if back.nelement() else b"") != expected:
            fail("roundtrip-bits", "deserialize_tensor(stage_buffer()) has a different int_repr")
        elif not same_qparams(back, q):
            fail("roundtrip-qparams", "deserialize_tensor(stage_buffer()) has different quantization parameters")
        if rec["axis"] is None and rec["dest"] != "none":
            same = rec["dest"] == "same-qparams"
            dest = torch._empty_affine_quantized(shape, scale=rec["scale"] if same else rec["scale"] * 2 + 1,
                                                 zero_point=rec["zp"] if same else rec["zp"] + 1, dtype=dtype)
            rrs, fut = TensorIOPreparer.prepare_read(entry, dest)
            for rr in rrs:
                C17_run(rr.buffer_consumer.consume_buffer(staged))
            out = fut.obj
            if out.dtype != dtype or list(out.shape) != shape:
                fail("roundtrip-dtype-or-shape", f"consumer gave dtype {out.dtype} shape {list(out.shape)}")
            elif (C17_bits(out.int_repr()) if out.nelement() else b"") != expected:
                fail("roundtrip-bits", f"consumer into a quantized destination ({rec['dest']}) has a different int_repr")
            elif same and not same_qparams(out, q):
                fail("roundtrip-qparams", "consumer into a destination with equal q-params changed the q-params")
            elif not same and not same_qparams(out, q) and res is not None:
                note = ("observed (outside the C17 text, relevant to C01): loading a per-tensor quantized tensor into an existing "
                        "quantized destination with different scale/zero_point leaves the destination's q-params in place "
                        "(int_repr identical, dequantized values differ): tensor_copy -> dst.detach().copy_(src)")
                if note not in res.notes:
                    res.notes.append(note)
    except Exception as e:
        fail("stager-consumer-raises", f"quantized stager->consumer raised {type(e).__name__}: {str(e)[:160]}")
    return fails, q


def check_layouts(ctx: Ctx, res: Result):
    import torch
    from torchsnapshot import serialization as S

    rng = ctx.rng
    all_d = list(S.ALL_SUPPORTED_DTYPES)
    bp = [d for d in all_d if d in S.BUFFER_PROTOCOL_SUPPORTED_DTYPES]
    quant = [d for d in all_d if d in S.SUPPORTED_QUANTIZED_DTYPES]
    other = [d for d in all_d if d not in bp and d not in quant]          # complex: torch_save
    cap = 64 if not ctx.thorough else 160
    model_cases, model_meta = [], []

    def one(dtype, kind, n1d=None):
        name = C17_name(dtype)
        es = torch.empty(0, dtype=dtype).element_size()
        if n1d is not None:
            variant, n = n1d
            if variant == "contiguous":
                S_, build = n, (lambda b: b)
            elif variant == "offset":
                S_, build = n + 3, (lambda b: b[3:3 + n])
            else:
                S_, build = 2 * n + 1, (lambda b: b[1::2][:n])
        else:
            S_, build = C17_layout(rng, kind, cap)
        raw = C17_raw(rng, name, es, S_)
        t = build(C17_base(raw, dtype))
        is_async = rng.random() < 0.4
        dest = rng.choice(["none", "none", "contig", "transposed", "strided"])
        res.count("layout.dtype", name)
        res.count("layout.kind", kind)
        res.count("layout.ndim", t.dim())
        res.count("layout.numel", C17_numel_class(t.nelement()))
        res.count("layout.contiguous", t.is_contiguous())
        res.count("layout.dest", dest)
        res.case({"kind": "layout", "dtype": name, "shape": list(t.shape), "strides": list(t.stride()),
                  "offset": int(t.storage_offset()), "content": hash(raw) & 0xffffffff}, nontrivial=t.nelement() > 0)
        if dtype in bp:
            fails, got = run_bp_case(name, dtype, raw, t, is_async, dest, rng)
            res.failures += fails
            if got is not None and S_ <= 40 and t.nelement() <= 40 and (len(model_cases) < ctx.n(380, 6000)):
                st = [list(raw[k * es:(k + 1) * es]) for k in range(S_)]
                inp = (f"({term(name)}, ((0, {term(list(t.shape))}), ({term(list(t.stride()))}, "
                       f"{term(int(t.storage_offset()))}), {term(st)}))")
                exp = val([True, True, bool(t.is_contiguous()), got, got])
                model_cases.append((inp, exp))
                model_meta.append({"dtype": name, "shape": list(t.shape), "strides": list(t.stride()),
                                   "offset": int(t.storage_offset()), "storage": st})
        else:
            res.failures += run_complex_case(name, dtype, raw, t, is_async, dest, rng)

    # bounded-exhaustive 1-D sizes 0..17 (every count, odd ones included) for every buffer-protocol dtype
    for dtype in bp + other:
        for n in range(0, 18 if not ctx.thorough else 40):
            for variant in ("contiguous", "offset", "step"):
                one(dtype, "1d-" + variant, (variant, n))
    # random layouts
    per = ctx.n(8, 150)
    for dtype in bp + other:
        for kind in KINDS:
            for _ in range(per):
                one(dtype, kind)

    # quantized ----------------------------------------------------------------
    for dtype in quant:
        name = C17_name(dtype)
        for _ in range(ctx.n(24, 500)):
            bshape = C17_shape(rng, cap=48)
            if rng.random() < 0.12 and bshape:
                bshape[rng.randrange(len(bshape))] = 0
            perm = list(range(len(bshape)))
            if rng.random() < 0.5:
                rng.shuffle(perm)
            axis = None
            if bshape and C17_prod(bshape) > 0 and rng.random() < 0.25:
                axis = rng.randrange(len(bshape))
            rec = {"dtype": name, "raw": list(bytes(rng.getrandbits(8) for _ in range(C17_prod(bshape) * QINT[name][1]))),
                   "shape": bshape, "perm": perm if (perm != sorted(perm) and axis is None) else [], "scale": rng.choice([0.25, 0.1, 1.0, 3.5]),
                   "zp": rng.choice([0, 3, 10, 100]), "axis": axis, "async": rng.random() < 0.4,
                   "dest": rng.choice(["none", "same-qparams", "same-qparams", "other-qparams"])}
            fails, q = run_quant_case(name, rec, res)
            res.failures += fails
            res.count("layout.dtype", name)
            res.count("layout.kind", "quant-" + ("per_channel" if axis is not None else "per_tensor"))
            res.count("layout.numel", C17_numel_class(q.nelement()))
            res.count("layout.dest", rec["dest"])
            res.case({"kind": "quant", **{k: rec[k] for k in ("dtype", "shape", "perm", "axis", "dest")},
                      "content": hash(bytes(rec["raw"])) & 0xffffffff}, nontrivial=q.nelement() > 0)

    # model correspondence: the byte string the model computes = the byte string tensor_as_memoryview returned
    where = "layout:tensor_as_memoryview~model"
    # the carrier item size is the one the GENERATED source description gives for the dtype (C17_carrier)
    fn = ("(fun x : list Z * layout_input => let '(d, ((_, sh), so, st)) := x in "
          "match C17_carrier d with Some c => obs_as_memoryview ((c, sh), so, st) | None => VL [] end)")
    C17_compare(res, where, "C17_mv", IMP_LAYOUT + "From TS Require Import model.Dtype gen.DtypeGen proofs.C17Gen.\n",
                fn, model_cases, model_meta, shard=200)
    res.count("model.as_memoryview_cases", len(model_cases))


def check_ids(ctx: Ctx, res: Result):
    """Larger strided gathers: the storage holds the ids 0..S-1 (int64); the real tensor_as_memoryview must return the ids
    the model's index arithmetic selects."""
    import torch
    from torchsnapshot.serialization import tensor_as_memoryview

    rng = ctx.rng
    where = "layout:gather-of-ids~model"
    cases, meta = [], []
    for _ in range(ctx.n(300, 3000)):
        kind = rng.choice(KINDS)
        S_, build = C17_layout(rng, kind, 200 if rng.random() < 0.3 else 48)
        if S_ > 420:
            continue
        t = build(torch.arange(S_, dtype=torch.int64))
        try:
            got = bytes(tensor_as_memoryview(t))
        except Exception:
            continue                                                   # reported by check_layouts' oracle
        ids = list(struct.unpack(f"<{len(got) // 8}q", got)) if len(got) % 8 == 0 else [-1]
        inp = (f"(({term(list(t.shape))}, {term(list(t.stride()))}), ({term(int(t.storage_offset()))}, "
               f"{term(list(range(S_)))}))")
        cases.append((inp, val(ids)))
        meta.append({"shape": list(t.shape), "strides": list(t.stride()), "offset": int(t.storage_offset()), "S": S_})
        res.case({"kind": "ids", **meta[-1]}, nontrivial=t.nelement() > 0)
        res.count("ids.kind", kind)
    C17_compare(res, where, "C17_ids", IMP_LAYOUT, "obs_elems_ids", cases, meta)


def check_from_memoryview(ctx: Ctx, res: Result):
    """tensor_from_memoryview on well-formed and malformed (wrong length) buffers against the model."""
    import torch
    from torchsnapshot.serialization import tensor_from_memoryview

    rng = ctx.rng
    where = "layout:tensor_from_memoryview~model"
    by_size = {1: [torch.uint8, torch.int8], 2: [torch.int16, torch.float16, torch.bfloat16], 4: [torch.int32, torch.float32],
               8: [torch.int64, torch.float64]}
    cases, meta = [], []
    for _ in range(ctx.n(300, 5000)):
        es = rng.choice([1, 2, 2, 4, 8])
        dtype = rng.choice(by_size[es])
        shape = C17_shape(rng, cap=24)
        if rng.random() < 0.15 and shape:
            shape[rng.randrange(len(shape))] = 0
        n = C17_prod(shape)
        malformed = rng.random() < 0.45
        if malformed:
            ln = max(0, rng.choice([n * es - 1, n * es + 1, n * es - es, n * es + es, (n + 1) * es, 0, es, 1, 2 * n * es, n * es // 2]))
        else:
            ln = n * es
        mv = bytes(rng.getrandbits(8) for _ in range(ln))
        wrong = None
        try:
            back = tensor_from_memoryview(memoryview(mv), dtype, list(shape))
            if back.dtype != dtype or list(back.shape) != shape:
                wrong = f"returned dtype {back.dtype} shape {list(back.shape)}"
                obs = [[[-1]]]
            else:
                bits = C17_bits(back)
                obs = [[list(bits[k * es:(k + 1) * es]) for k in range(len(bits) // es)]]
                if ln == n * es and bits != mv:
                    wrong = "returned different bits"
        except (ValueError, RuntimeError) as e:
            obs = None
            if ln == n * es:
                wrong = f"raised {type(e).__name__}"
        res.count("from_mv.stream", ("malformed" if ln != n * es else "wellformed") + ("/error" if obs is None else "/ok"))
        res.case({"kind": "from_mv", "esize": es, "len": ln, "shape": shape, "content": hash(mv) & 0xffffffff}, nontrivial=obs is not None and n > 0)
        if ln == n * es and wrong is not None:
            res.failures.append(Failure(f"C17:deserialized-bits:{C17_name(dtype)}:{'empty' if n == 0 else 'contiguous'}",
                                        f"tensor_from_memoryview of a {ln}-byte buffer, dtype {dtype}, shape {shape} {wrong}",
                                        {"kind": "from_mv", "dtype": C17_name(dtype), "mv": list(mv), "shape": shape}))
        cases.append((f"({term(es)}, {term(mv)}, {term(shape)})", val(obs)))
        meta.append({"esize": es, "dtype": C17_name(dtype), "mv": list(mv), "shape": shape})
    C17_compare(res, where, "C17_fm", IMP_LAYOUT, "obs_from_memoryview", cases, meta)


def correspond(ctx: Ctx) -> Result:
    import warnings
    warnings.simplefilter("ignore")
    from lib.core import Obligation
    import traceback
    res = Result(rule=RULE)
    for part in (check_tables, check_guard, check_layouts, check_ids, check_from_memoryview):
        try:
            part(ctx, res)
        except Exception as e:      # keep what the other parts found; the exception itself is a broken obligation
            res.obligations.append(Obligation(f"correspondence:harness-exception:{part.__name__}", False,
                                              f"{type(e).__name__}: {e}\n{traceback.format_exc()[-2000:]}"))
    return res


# =========================================================================== replay
def replay(ctx: Ctx, data):
    import random
    import warnings
    import torch
    from torchsnapshot import serialization as S
    warnings.simplefilter("ignore")
    rng = random.Random(0)
    kind = data.get("kind")
    if kind == "table":
        res = Result()
        check_tables(ctx, res)
        for f in res.failures:
            if f.replay.get("dtype") == data["dtype"]:
                return f
        return res.failures[0] if res.failures else None
    if kind == "layout":
        name = data["dtype"]
        dtype = getattr(torch, name)
        raw = bytes(data["raw"])
        t = torch.as_strided(C17_base(raw, dtype), data["shape"], data["strides"], data["offset"])
        if dtype in S.BUFFER_PROTOCOL_SUPPORTED_DTYPES:
            fails, _ = run_bp_case(name, dtype, raw, t, data["async"], data["dest"], rng)
        else:
            fails = run_complex_case(name, dtype, raw, t, data["async"], data["dest"], rng)
        return fails[0] if fails else None
    if kind == "quant":
        fails, _ = run_quant_case(data["dtype"], data, None)
        return fails[0] if fails else None
    if kind == "from_mv":
        dtype = getattr(torch, data["dtype"])
        mv = bytes(data["mv"])
        try:
            back = S.tensor_from_memoryview(memoryview(mv), dtype, list(data["shape"]))
            if C17_bits(back) == mv and back.dtype == dtype and list(back.shape) == list(data["shape"]):
                return None
            what = "returned different bits"
        except Exception as e:
            what = f"raised {type(e).__name__}"
        return Failure(f"C17:deserialized-bits:{data['dtype']}:{'empty' if not mv else 'contiguous'}",
                       f"tensor_from_memoryview {what}", data)
    return None


MANIFEST = {
    "level_text": ("Machine-checked proof (Coq 8.16.1). (1) The dtype tables of serialization.py are translated from the source "
                   "on every run and proved (verified checkers + vm_compute over the finite tables): dtype<->string is a bijection "
                   "on ALL_SUPPORTED_DTYPES with _STRING_TO_DTYPE its two-sided inverse, every recorded element size equals the "
                   "PyTorch reference, buffer-protocol dtypes are a subset with positive sizes, disjoint from the quantized ones. "
                   "(2) Over an executable model of strided tensors with an abstract element type and esize-byte encoding "
                   "(all dtypes and bit patterns at once): for every rank, shape (scalars, zero-length dims), strides (0 = "
                   "broadcast, size-1 dims with any stride) and storage offset of a well-formed view, tensor_as_memoryview "
                   "yields esize*numel bytes and tensor_from_memoryview of it with the recorded shape returns exactly the "
                   "view's elements in row-major order; the bfloat16 storage-slice branch equals the gather; through a carrier "
                   "of item size c the length is c*floor(esize*numel/c) (c is read from the source: 1 now; the former float32 "
                   "carrier is refuted by a witness). The model is tied to the code on every run by differential execution of the "
                   "real tensor_as_memoryview / tensor_from_memoryview / TensorBufferStager -> TensorBufferConsumer on raw bit "
                   "patterns against byte gathering from the storage and against the model inside coqc (vm_compute)."),
    "level_note": ("Partial: torch/numpy byte movement (contiguous, clone, copy_, numpy, frombuffer) and torch.save/torch.load "
                   "(complex, quantized dtypes; theorem C17_torch_save_path_partial assumes load(save x) = x) are runtime "
                   "behaviour: modelled as identity on bytes, not verified, checked differentially on every run. Trusted: Coq "
                   "kernel + VM, the ast translator, the hand-written Layout/Dtype models and this harness. Theorems are closed "
                   "under the global context (no axioms)."),
    "technique": "Coq proof (list/index-arithmetic lemmas, verified table checkers by reflection) + ast translation of the dtype "
                 "tables + vm_compute correspondence against the real (de)serialization code",
    "design_ref": "DESIGN.md section 5, C17",
}
