"""C10 - I/O pipelines respect the memory budget and the concurrency cap."""
from __future__ import annotations

import itertools
import os

from lib import coqrun
from lib.core import Ctx, Failure, Mismatch, Result
from lib.tocoq import term, val
from props import sched_common as sc

PROP = "C10"
PROPS_FILE = "props/C10.v"
GEN = ["gen_sched"]
CORRESPONDENCES = ["write-pipeline:trace~model", "read-pipeline:trace~model", "auto-budget:real~translated-formula",
                   "declared-cost>=buffer:buffer-protocol stagers/consumers"]
RULE = ("end to end: real Snapshot.take / restore under a small per-rank budget knob with the bytes of existing buffers "
        "measured at the stager / storage / consumer seams; gated executions of the real execute_write_reqs+PendingIOWork.complete and execute_read_reqs: request "
        "multisets with costs from {0,1,B-1,B,B+1,2B,random}, buffer sizes <= cost, B in {1,small,large}, K in "
        "{1,2,3,16}, completion order chosen by a pick list (quick: random; thorough: all completion orders for <=4 "
        "write / <=4 read requests over a cost lattice). Non-trivial = at least two requests; distinct by "
        "(requests,B,K,completion sequence).")
TRUSTED = [
    "Coq 8.16.1 kernel and vm_compute (no native_compute); theorems closed under the global context",
    "translator/gen_sched.py (Python ast -> Gallina for the guards, refunds, dispatch order, budget formula of scheduler.py)",
    "model of the event loop: completed tasks are processed one at a time, each followed by the dispatch calls "
    "(coq/model/Sched.v); asyncio itself is runtime",
    "gated-asyncio harness harness/props/sched_common.py (one gate opened at a time, quiescence by sleep(0))",
]
ASSUMPTIONS = [
    "H_sound: a request's buffer is no larger than its declared cost (checked on the real stagers/consumers every run; "
    "objects and torch_save tensors violate it: known findings)",
    "all ranks of a host read the same psutil available memory (sampling race not modelled)",
    "costs and sizes are < 2^53 so that int(available * 0.6) is the float product the code computes",
]
IMPORTS = "From TS Require Import model.Sched.\n"
WTYPE = "reqs * (Z * Z) * list Z * list wevent * list Z"
RTYPE = "reqs * (Z * Z) * list revent"


def gen_reqs(rng, B, nmax):
    n = rng.randint(1, nmax)
    out = []
    for _ in range(n):
        c = rng.choice([0, 1, max(B - 1, 0), B, B + 1, 2 * B, rng.randint(0, 2 * B + 2), rng.randint(0, max(B, 1))])
        b = rng.choice([c, c, c, rng.randint(0, c), 0])
        out.append((c, b))
    return out


def oracle_budget(kind, reqs, B, K, acct, run, res, replay):
    for k, a in enumerate(acct):
        if a["accounted"] > B and a["inflight"] > 1:
            res.failures.append(Failure(f"C10:{kind}:over-budget-with-{'several' if a['inflight'] > 1 else 'one'}-in-flight",
                                        f"{kind} pipeline: {a['accounted']} bytes accounted > budget {B} with {a['inflight']} requests in flight (step {k}) reqs={reqs} K={K}",
                                        replay))
            break
    for k, a in enumerate(acct):
        if a["io"] > K:
            res.failures.append(Failure(f"C10:{kind}:io-concurrency-exceeded",
                                        f"{kind} pipeline: {a['io']} storage operations in progress > cap {K} (step {k}) reqs={reqs} B={B}", replay))
            break
    if kind == "write" and run.outcome == "ok" and run.final_rem != B:
        res.failures.append(Failure("C10:write:budget-not-returned",
                                    f"write pipeline finished with remaining budget {run.final_rem} != {B} reqs={reqs} K={K}", replay))


def write_cases(ctx: Ctx):
    rng = ctx.rng
    out = []
    # corpus: the shapes that matter (cost = rem, oversized alone, zero cost, K = 1)
    out += [([(6, 6), (5, 5), (12, 12)], 10, 2, [1, 0, 2, 0, 1]), ([(4, 4), (4, 4), (4, 4)], 8, 1, [0]),
            ([(0, 0), (0, 0), (3, 3)], 1, 1, [2, 0, 1]), ([(10, 10), (10, 10)], 10, 16, [1, 1, 0]),
            ([(11, 3), (5, 5), (2, 2)], 10, 2, [0, 2, 1]), ([(1, 1)] * 5, 1, 3, [3, 1, 4, 1, 5])]
    if ctx.thorough:
        lattice = [0, 1, 3, 4, 5, 9]
        for n in (2, 3):
            for costs in itertools.product(lattice, repeat=n):
                for K in (1, 2):
                    reqs = [(c, c) for c in costs]
                    for picks in itertools.product(range(3), repeat=min(2 * n, 4)):
                        out.append((reqs, 4, K, list(picks)))
    for _ in range(ctx.n(250, 1500)):
        B = rng.choice([1, 2, 7, 10, 64, 1000])
        K = rng.choice([1, 1, 2, 3, 16])
        reqs = gen_reqs(rng, B, 7)
        picks = [rng.randint(0, 6) for _ in range(rng.randint(1, 16))]
        out.append((reqs, B, K, picks))
    return out


def check_write(ctx: Ctx, res: Result):
    coq, meta = [], []
    for reqs, B, K, picks in write_cases(ctx):
        run = sc.run_write(reqs, B, K, picks)
        v0, events, obs, acct = sc.write_trace(reqs, run)
        replay = {"pipeline": "write", "reqs": reqs, "B": B, "K": K, "picks": picks}
        res.case({"pipeline": "write", "reqs": reqs, "B": B, "K": K, "completions": [(s["kind"], s["id"]) for s in run.steps]},
                 nontrivial=len(reqs) >= 2)
        res.count("write.n_reqs", len(reqs)); res.count("write.K", K); res.count("write.outcome", run.outcome)
        res.count("write.cost_class", "over" if any(c > B for c, _ in reqs) else ("equal" if any(c == B for c, _ in reqs) else "under"))
        oracle_budget("write", reqs, B, K, acct, run, res, replay)
        ridx, rems = [], []
        if run.handoff_at is not None:
            ridx.append(run.handoff_at); rems.append(run.handoff_rem)
        if run.final_rem is not None:
            ridx.append(len(events)); rems.append(run.final_rem)
        coq.append((sc.wcase_term(reqs, K, B, v0, events, ridx), val([obs, rems])))
        meta.append(replay)
    bad, errs = coqrun.run_cases("C10_w", IMPORTS, "obs_wrun", coq, shard=250, in_type=WTYPE)
    for e in errs:
        res.mismatches.append(Mismatch("write-pipeline:trace~model", "coqc error", None, e))
    for i in bad:
        res.mismatches.append(Mismatch("write-pipeline:trace~model", meta[i], coq[i][1][:600], None))
    res.traces_validated += len(coq)


def read_cases(ctx: Ctx):
    rng = ctx.rng
    out = [([(6, 6), (6, 6), (1, 1)], 10, 16, [0, 0, 0]),       # D7 witness: second cost-6 must wait for the first consume
           ([(6, 6), (6, 6)], 10, 16, [0, 1, 0]), ([(12, 12), (1, 1)], 10, 2, [1, 0]),
           ([(3, 3)] * 4, 7, 1, [0, 1, 0, 1]), ([(0, 0), (5, 5), (5, 5)], 5, 2, [2, 1, 0, 0])]
    if ctx.thorough:
        lattice = [0, 1, 3, 4, 5, 9]
        for n in (2, 3):
            for costs in itertools.product(lattice, repeat=n):
                for K in (1, 2):
                    for picks in itertools.product(range(3), repeat=min(2 * n, 4)):
                        out.append(([(c, c) for c in costs], 4, K, list(picks)))
    for _ in range(ctx.n(250, 1500)):
        B = rng.choice([1, 2, 7, 10, 64, 1000])
        K = rng.choice([1, 1, 2, 3, 16])
        reqs = gen_reqs(rng, B, 7)
        picks = [rng.randint(0, 6) for _ in range(rng.randint(1, 16))]
        out.append((reqs, B, K, picks))
    return out


def check_read(ctx: Ctx, res: Result):
    coq, meta = [], []
    for reqs, B, K, picks in read_cases(ctx):
        run = sc.run_read(reqs, B, K, picks)
        events, obs, acct = sc.read_trace(reqs, run)
        replay = {"pipeline": "read", "reqs": reqs, "B": B, "K": K, "picks": picks}
        res.case({"pipeline": "read", "reqs": reqs, "B": B, "K": K, "completions": [(s["kind"], s["id"]) for s in run.steps]},
                 nontrivial=len(reqs) >= 2)
        res.count("read.n_reqs", len(reqs)); res.count("read.K", K); res.count("read.outcome", run.outcome)
        oracle_budget("read", reqs, B, K, acct, run, res, replay)
        coq.append((sc.rcase_term(reqs, K, B, events), val(obs)))
        meta.append(replay)
    bad, errs = coqrun.run_cases("C10_r", IMPORTS, "obs_rrun", coq, shard=250, in_type=RTYPE)
    for e in errs:
        res.mismatches.append(Mismatch("read-pipeline:trace~model", "coqc error", None, e))
    for i in bad:
        res.mismatches.append(Mismatch("read-pipeline:trace~model", meta[i], coq[i][1][:600], None))
    res.traces_validated += len(coq)


# --------------------------------------------------------------------------- automatic budget on the real function
class _FakePG:
    def __init__(self, hosts, me):
        self.hosts, self.me = hosts, me

    def get_world_size(self):
        return len(self.hosts)

    def get_rank(self):
        return self.me

    def all_gather_object(self, obj_list, obj):
        for i, h in enumerate(self.hosts):
            obj_list[i] = h


def real_budget(available, hosts, me):
    import psutil, socket
    from torchsnapshot import scheduler
    orig_vm, orig_host = psutil.virtual_memory, socket.gethostname

    class VM:
        pass
    vm = VM(); vm.available = available
    psutil.virtual_memory = lambda: vm
    socket.gethostname = lambda: hosts[me]
    try:
        return scheduler.get_process_memory_budget_bytes(_FakePG(hosts, me))
    finally:
        psutil.virtual_memory, socket.gethostname = orig_vm, orig_host


def check_auto_budget(ctx: Ctx, res: Result):
    from fractions import Fraction
    from torchsnapshot import scheduler
    rng = ctx.rng
    os.environ.pop("TORCHSNAPSHOT_PER_RANK_MEMORY_BUDGET_BYTES", None)
    coq = []
    for _ in range(ctx.n(60, 400)):
        A = rng.choice([0, 1, 4, 5, 10, 1 << 20, 5 * (1 << 30), (1 << 40) + 7, rng.randint(0, 1 << 42), 200 * (1 << 30)])
        nh = rng.randint(1, 3)
        hosts = [f"h{rng.randrange(nh)}" for _ in range(rng.randint(1, 8))]
        a6 = real_budget(A, ["solo"], 0)              # n = 1: min(int(A * multiplier), cap)
        budgets = [real_budget(A, hosts, r) for r in range(len(hosts))]
        res.case({"auto_budget": True, "available": A, "hosts": hosts}, nontrivial=len(hosts) > 1)
        res.count("auto.ranks", len(hosts))
        frac = Fraction(scheduler._AVAILABLE_MEMORY_MULTIPLIER).limit_denominator(1000)
        for h in set(hosts):
            tot = sum(b for b, hh in zip(budgets, hosts) if hh == h)
            if tot > frac * A or any(b > scheduler._MAX_PER_RANK_MEMORY_BUDGET_BYTES for b in budgets):
                res.failures.append(Failure("C10:auto-budget-exceeds-fraction",
                                            f"budgets {budgets} on hosts {hosts}: host {h} sums to {tot} > {frac}*{A}",
                                            {"available": A, "hosts": hosts}))
        if a6 < scheduler._MAX_PER_RANK_MEMORY_BUDGET_BYTES:
            for r, h in enumerate(hosts):
                coq.append((f"({term(a6)}, {term(hosts.count(h))})", val(budgets[r])))
    # override honoured verbatim
    for v in (1, 12345, 1 << 45):
        os.environ["TORCHSNAPSHOT_PER_RANK_MEMORY_BUDGET_BYTES"] = str(v)
        try:
            got = real_budget(1 << 30, ["a", "a"], 0)
        finally:
            os.environ.pop("TORCHSNAPSHOT_PER_RANK_MEMORY_BUDGET_BYTES", None)
        res.case({"override": v}, nontrivial=False)
        if got != v:
            res.failures.append(Failure("C10:override-not-honoured", f"override {v} -> {got}", {"override": v}))
    bad, errs = coqrun.run_cases("C10_ab", IMPORTS, "obs_auto_budget", coq, in_type="Z * Z")
    for e in errs:
        res.mismatches.append(Mismatch("auto-budget:real~translated-formula", "coqc error", None, e))
    for i in bad:
        res.mismatches.append(Mismatch("auto-budget:real~translated-formula", coq[i][0], coq[i][1], None))


# --------------------------------------------------------------------------- H_sound on the real stagers / consumers
def check_declared_costs(ctx: Ctx, res: Result):
    """len(buffer) <= declared cost, per class of real stager/consumer.  Buffer-protocol classes must satisfy it
    (correspondence obligation); objects and torch_save tensors do not (known findings, replayed here)."""
    import asyncio
    import torch
    from torchsnapshot.batcher import batch_read_requests, batch_write_requests
    from torchsnapshot.io_preparer import prepare_read, prepare_write
    rng = ctx.rng

    def stage(wr):
        loop = asyncio.new_event_loop()
        try:
            return loop.run_until_complete(wr.buffer_stager.stage_buffer(None))
        finally:
            loop.close()

    samples = []
    for dt in (torch.float32, torch.int8, torch.bfloat16, torch.float64, torch.bool):
        for n in (0, 1, 3, 17):
            samples.append(("buffer_protocol", torch.zeros(n, dtype=dt)))
    samples += [("torch_save", torch.zeros(n, dtype=torch.complex64)) for n in (1, 4, 600)]
    samples += [("object", o) for o in ({"a": 1}, (1, 2, 3), "x" * 100, [1.5] * 50)]
    store = {}
    entries = {}
    for k, (cls, obj) in enumerate(samples):
        entry, wrs = prepare_write(obj, f"p{k}", rank=0, replicated=False)
        for wr in wrs:
            buf = stage(wr)
            store[wr.path] = bytes(buf)
            cost = wr.buffer_stager.get_staging_cost_bytes()
            name = type(wr.buffer_stager).__name__ + (f"[{cls}]" if cls != "object" else "")
            res.case({"declared_cost": name, "cost": cost, "buffer": len(buf)}, nontrivial=len(buf) > 0)
            res.count("hsound.stager", name)
            if len(buf) > cost:
                sig = f"C10:underdeclared-cost:{name}"
                res.failures.append(Failure(sig, f"{name}: buffer of {len(buf)} bytes but declared staging cost {cost}",
                                            {"class": cls, "obj": repr(obj)[:80]}))
        entries[k] = (cls, entry)
    for k, (cls, entry) in entries.items():
        rrs, _ = prepare_read(entry, None)
        for rr in rrs:
            cost = rr.buffer_consumer.get_consuming_cost_bytes()
            buf = store[rr.path] if rr.byte_range is None else store[rr.path][rr.byte_range[0]:rr.byte_range[1]]
            name = type(rr.buffer_consumer).__name__ + (f"[{cls}]" if cls != "object" else "")
            res.case({"declared_cost": name, "cost": cost, "buffer": len(buf)}, nontrivial=len(buf) > 0)
            res.count("hsound.consumer", name)
            if len(buf) > cost:
                res.failures.append(Failure(f"C10:underdeclared-cost:{name}",
                                            f"{name}: buffer of {len(buf)} bytes but declared consuming cost {cost}",
                                            {"class": cls}))
    # batched stager / consumer (slabs and merged reads of buffer-protocol tensors)
    tensors = [torch.arange(n, dtype=torch.float32) for n in (1, 2, 5, 9)]
    ents, wrs = [], []
    for k, t in enumerate(tensors):
        e, w = prepare_write(t, f"b{k}", rank=0, replicated=False)
        ents.append(e); wrs += w
    _, bw = batch_write_requests(ents, wrs, slab_size_threshold_bytes=1000)
    for wr in bw:
        buf = stage(wr)
        store[wr.path] = bytes(buf)
        cost = wr.buffer_stager.get_staging_cost_bytes()
        name = type(wr.buffer_stager).__name__
        res.case({"declared_cost": name, "cost": cost, "buffer": len(buf)})
        if len(buf) > cost:
            res.failures.append(Failure(f"C10:underdeclared-cost:{name}", f"{name}: buffer {len(buf)} > cost {cost}", {}))
    rrs = []
    for e in ents:
        r, _ = prepare_read(e, None)
        rrs += r
    for rr in batch_read_requests(rrs):
        cost = rr.buffer_consumer.get_consuming_cost_bytes()
        n = len(store[rr.path]) if rr.byte_range is None else rr.byte_range[1] - rr.byte_range[0]
        name = type(rr.buffer_consumer).__name__
        res.case({"declared_cost": name, "cost": cost, "buffer": n})
        if n > cost:
            res.failures.append(Failure(f"C10:underdeclared-cost:{name}", f"{name}: merged read of {n} bytes > cost {cost}", {}))


def check_e2e(ctx: Ctx, res: Result):
    """The real Snapshot.take / restore under a small per-rank budget knob, measured independently of the scheduler's own
    ledger: bytes of buffers that EXIST - staged and not yet written (save); read and not yet consumed (load) - observed at
    the stager / storage-plugin / consumer seams.  They never exceed the budget unless a single buffer is in flight.
    Buffer-protocol tensors only (declared cost = buffer size; the object / torch_save classes are the known findings)."""
    import os
    import shutil
    import torch
    from torchsnapshot import Snapshot, StateDict
    from torchsnapshot.io_preparers.tensor import TensorBufferConsumer, TensorBufferStager
    from torchsnapshot.storage_plugins.fs import FSStoragePlugin
    from lib.world import safe_gc
    rng = ctx.rng
    led = {"alive": {}, "peak": (0, 0), "read_alive": 0, "read_n": 0, "read_peak": (0, 0)}
    o_stage, o_write, o_read, o_consume = TensorBufferStager.stage_buffer, FSStoragePlugin.write, FSStoragePlugin.read, TensorBufferConsumer.consume_buffer

    async def stage(self, executor=None):
        buf = await o_stage(self, executor)
        led["alive"][id(buf)] = len(buf)
        tot = sum(led["alive"].values())
        if len(led["alive"]) > 1 and tot > led["peak"][0]:
            led["peak"] = (tot, len(led["alive"]))
        return buf

    async def write(self, write_io):
        await o_write(self, write_io)
        led["alive"].pop(id(write_io.buf), None)

    async def read(self, read_io):
        await o_read(self, read_io)
        if not read_io.path.endswith(".snapshot_metadata"):
            led["read_alive"] += len(read_io.buf.getvalue()); led["read_n"] += 1
            if led["read_n"] > 1 and led["read_alive"] > led["read_peak"][0]:
                led["read_peak"] = (led["read_alive"], led["read_n"])

    async def consume(self, buf, executor=None):
        await o_consume(self, buf, executor)
        led["read_alive"] -= len(buf); led["read_n"] -= 1
    envs = {"TORCHSNAPSHOT_DISABLE_BATCHING": "1"}
    saved = {k: os.environ.get(k) for k in list(envs) + ["TORCHSNAPSHOT_PER_RANK_MEMORY_BUDGET_BYTES"]}
    TensorBufferStager.stage_buffer, FSStoragePlugin.write, FSStoragePlugin.read, TensorBufferConsumer.consume_buffer = stage, write, read, consume
    try:
        os.environ.update(envs)
        for i in range(ctx.n(12, 80)):
            sizes = [rng.choice([2, 4, 6, 10, 16]) for _ in range(rng.randint(3, 9))]
            B = rng.choice([16, 24, 40, 64, 100])
            os.environ["TORCHSNAPSHOT_PER_RANK_MEMORY_BUDGET_BYTES"] = str(B)
            root = ctx.scratch("c10e")
            try:
                state = {f"t{j}": torch.arange(n, dtype=torch.float32) + j for j, n in enumerate(sizes)}
                led["alive"].clear(); led["peak"] = (0, 0); led["read_alive"] = 0; led["read_n"] = 0; led["read_peak"] = (0, 0)
                with safe_gc():
                    Snapshot.take(os.path.join(root, "s"), {"m": StateDict(dict(state))})
                    wpeak = led["peak"]
                    tgt = {"m": StateDict({k: torch.zeros_like(v) for k, v in state.items()})}
                    snap_obj = Snapshot(os.path.join(root, "s"))
                    snap_obj.restore(tgt)
                    rpeak = led["read_peak"]
                    # the SAME Snapshot object again under a different (smaller) budget: the budget is a property of the
                    # call, not of the object
                    B2 = rng.choice([b for b in (8, 16, 24, 40) if b < B] or [8])
                    os.environ["TORCHSNAPSHOT_PER_RANK_MEMORY_BUDGET_BYTES"] = str(B2)
                    led["read_alive"] = 0; led["read_n"] = 0; led["read_peak"] = (0, 0)
                    tgt2 = {"m": StateDict({k: torch.zeros_like(v) for k, v in state.items()})}
                    snap_obj.restore(tgt2)
                    rpeak2 = led["read_peak"]
                    if rpeak2[0] > B2:
                        res.failures.append(Failure("C10:e2e:second-restore-ignores-the-current-budget",
                                                    f"second restore() of one Snapshot object with budget {B2} (first: {B}): {rpeak2[0]} bytes read and not yet consumed at once ({rpeak2[1]} buffers; tensor bytes {[4 * n for n in sizes]})",
                                                    {"e2e": True, "sizes_elems": sizes, "B": B, "B2": B2}))
                replay = {"e2e": True, "sizes_elems": sizes, "B": B}
                res.case({"e2e": True, "bytes": [4 * n for n in sizes], "B": B, "peak_save": wpeak, "peak_load": rpeak}, nontrivial=sum(4 * n for n in sizes) > B)
                res.count("e2e.budget", B)
                if wpeak[0] > B:
                    res.failures.append(Failure("C10:e2e:save-buffers-exceed-budget",
                                                f"Snapshot.take with budget {B}: {wpeak[0]} bytes of staged, not yet written buffers alive at once ({wpeak[1]} buffers; tensor bytes {[4 * n for n in sizes]})", replay))
                if rpeak[0] > B:
                    res.failures.append(Failure("C10:e2e:load-buffers-exceed-budget",
                                                f"Snapshot.restore with budget {B}: {rpeak[0]} bytes read and not yet consumed at once ({rpeak[1]} buffers; tensor bytes {[4 * n for n in sizes]})", replay))
                if not all(torch.equal(tgt["m"][k], v) for k, v in state.items()):
                    res.failures.append(Failure("C10:e2e:restore-differs", f"restore under budget {B} did not reproduce the state", replay))
            finally:
                shutil.rmtree(root, ignore_errors=True)
    finally:
        TensorBufferStager.stage_buffer, FSStoragePlugin.write, FSStoragePlugin.read, TensorBufferConsumer.consume_buffer = o_stage, o_write, o_read, o_consume
        for k, v in saved.items():
            if v is None:
                os.environ.pop(k, None)
            else:
                os.environ[k] = v


def correspond(ctx: Ctx) -> Result:
    res = Result(rule=RULE)
    check_e2e(ctx, res)
    check_write(ctx, res)
    check_read(ctx, res)
    check_auto_budget(ctx, res)
    check_declared_costs(ctx, res)
    return res


def replay(ctx: Ctx, data):
    r = Result()
    if data.get("e2e"):
        # the sweep is seeded: re-running it with the recorded seed/tier reproduces the recorded case
        check_e2e(Ctx(ctx.prop, data.get("tier", ctx.tier), data.get("seed", ctx.seed)), r)
        return r.failures[0] if r.failures else None
    if data.get("pipeline") == "write":
        run = sc.run_write([tuple(x) for x in data["reqs"]], data["B"], data["K"], data["picks"])
        _, _, _, acct = sc.write_trace([tuple(x) for x in data["reqs"]], run)
        oracle_budget("write", data["reqs"], data["B"], data["K"], acct, run, r, data)
    elif data.get("pipeline") == "read":
        run = sc.run_read([tuple(x) for x in data["reqs"]], data["B"], data["K"], data["picks"])
        _, _, acct = sc.read_trace([tuple(x) for x in data["reqs"]], run)
        oracle_budget("read", data["reqs"], data["B"], data["K"], acct, run, r, data)
    return r.failures[0] if r.failures else None


MANIFEST = {
    "level_text": ("Machine-checked proof (Coq 8.16.1): the save and load pipelines of scheduler.py are modelled as transition "
                   "systems whose admission guards, refund expressions, dispatch order and budget formula are regenerated "
                   "from the source by a fail-closed Python-ast translator on every run; the ledger (remaining = budget - "
                   "accounted), the budget bound with the single-oversized-request exception, the I/O concurrency cap and "
                   "'all budget returned' are proved for every request list, budget, cap, visit order and completion order by "
                   "induction over the event list. The proofs are re-checked against the regenerated guards each run and the "
                   "model is validated by trace correspondence against gated executions of the real pipelines."),
    "level_note": ("Trusted: Coq kernel+VM, the translator, the event-loop abstraction (one completed task processed at a time), "
                   "the gated-asyncio harness. Assumes buffers no larger than declared cost (tested on the real "
                   "stagers/consumers; object and torch_save classes are known findings) and that ranks of a host sample the "
                   "same available memory. No axioms."),
    "technique": "Coq invariant proofs over source-translated guards + trace correspondence with gated real pipelines",
    "design_ref": "DESIGN.md section 5, C10",
}
