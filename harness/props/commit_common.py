"""Shared by C02 / C03: real Snapshot.take / async_take in the simulated world, under chosen schedules,
with crash cuts materialised on real storage and write-failure injection."""
from __future__ import annotations

import os
import random
import shutil

from lib.world import World

META = ".snapshot_metadata"


# --------------------------------------------------------------------------- workloads
def make_workload(rng: random.Random):
    """A small multi-rank application state, described by plain data so that it can be rebuilt (and replayed)."""
    W = rng.choice([1, 2, 2, 3, 3, 4])
    wl = {"W": W, "batching": rng.random() < 0.5, "chunk": rng.choice([None, 16, 64]),
          "replicated": rng.random() < 0.6, "ranks": [], "conc": rng.choice([None, None, 1, 1, 2]),
          # a tight per-rank memory budget makes staging overlap storage I/O (requests are admitted one or two at a time:
          # a write can fail while later requests are still to be staged); a small slab threshold lets some tensors
          # bypass the batcher although batching is on
          "budget": rng.choice([None, None, 16, 64]), "slab": rng.choice([None, None, 8, 24])}
    for r in range(W):
        n_priv = rng.randint(1, 3) if rng.random() < 0.7 else rng.randint(4, 7)
        wl["ranks"].append({"priv": [rng.randint(1, 9) for _ in range(n_priv)], "extra_key": rng.random() < 0.3,
                            "prim": rng.randint(0, 99)})
    wl["shared_len"] = rng.choice([3, 8, 20])
    # ranks > 0 pass their OWN path argument (documented: the path given by rank 0 is used); the io-concurrency knob is lowered
    # by the application while an async snapshot is pending (between async_take and wait)
    wl["diverge"] = rng.random() < 0.25
    wl["conc_after"] = rng.choice([None, None, None, 1])
    return wl


def designed_workloads():
    """Workloads that are CONSTRUCTED rather than drawn: which code path a take exercises depends on the knobs (a concurrency
    cap of 1 or a tight budget serialises the writes; without budget pressure nothing ever waits for staging; the batcher is
    bypassed only above the slab threshold), so every sweep starts with one workload per corner and only then draws more.
    Detection of a defect confined to one corner must not depend on the seed."""
    def ranks(*privs, extra=()):
        return [{"priv": list(p), "extra_key": i in extra, "prim": 11 * (i + 1)} for i, p in enumerate(privs)]
    base = {"batching": False, "chunk": None, "replicated": False, "conc": None, "budget": None, "slab": None, "shared_len": 8}
    return [
        # several writes of one rank in flight in the background phase (cap 2; default cap)
        dict(base, W=2, conc=2, ranks=ranks([3, 5, 2, 7, 4, 6], [2, 2, 3], extra=(1,))),
        dict(base, W=3, chunk=16, replicated=True, shared_len=20, ranks=ranks([2, 9], [4, 4, 4, 8, 1], [1], extra=(2,))),
        # budget pressure: requests wait for budget while earlier ones are staged and written (tight and moderate budget)
        dict(base, W=2, budget=16, ranks=ranks([3, 5, 2, 7, 4, 6], [6, 1, 6])),
        dict(base, W=2, budget=64, conc=1, replicated=True, ranks=ranks([9, 9, 2, 5], [1, 8, 8, 3, 3], extra=(0,))),
        # batcher on: slabs, with some entries above the slab threshold bypassing it; chunked entries next to slabs
        dict(base, W=2, batching=True, slab=24, conc=2, ranks=ranks([1, 9, 2, 7, 1], [5, 5, 1])),
        dict(base, W=3, batching=True, slab=8, chunk=16, replicated=True, budget=64, shared_len=20, ranks=ranks([1, 1, 4], [2], [7, 1], extra=(1,))),
        # one rank only
        dict(base, W=1, batching=True, ranks=ranks([1, 2, 3, 4])),
        # every rank passes its own path argument (rank 0's is used)
        dict(base, W=3, diverge=True, batching=True, replicated=True, ranks=ranks([2, 3], [4], [1, 1])),
        # the application lowers the io-concurrency knob while the async snapshot is pending
        # (dispatched under a cap of 4 resp. the default cap, completed under a cap of 1; the sweeps fail these writes LATE, so
        # that the failing write completes in one batch with its siblings)
        dict(base, W=2, conc=4, conc_after=1, ranks=ranks([3, 5, 2, 7, 4, 6, 1, 2], [2, 2, 3, 1, 5])),
        dict(base, W=2, conc_after=1, budget=64, ranks=ranks([3, 5, 2, 7, 4, 6, 1, 2], [2, 2, 3, 1, 5])),
    ]


def workloads(rng, n):
    """the designed workloads, then n drawn ones"""
    for wl in designed_workloads():
        yield wl
    for _ in range(n):
        yield make_workload(rng)


def build_state(wl, r, fill=True):
    import torch
    from torchsnapshot import StateDict
    spec = wl["ranks"][r]
    d = {"shared": (torch.arange(wl["shared_len"], dtype=torch.float32) if fill else torch.zeros(wl["shared_len"])),
         "n": spec["prim"] if fill else -1}
    for k, n in enumerate(spec["priv"]):
        d[f"p{k}"] = (torch.full((n,), float(10 * r + k), dtype=torch.float64) if fill else torch.zeros(n, dtype=torch.float64))
    st = {"m": StateDict(d)}
    if spec["extra_key"]:
        st[f"only{r}"] = StateDict({"z": (torch.full((2,), float(r + 1)) if fill else torch.zeros(2))})
    return st


def state_equal(a, b) -> bool:
    import torch
    if set(a.keys()) != set(b.keys()):
        return False
    for k in a:
        sa, sb = a[k].state_dict(), b[k].state_dict()
        if list(sa.keys()) != list(sb.keys()):
            return False
        for kk in sa:
            x, y = sa[kk], sb[kk]
            if isinstance(x, torch.Tensor):
                if not (isinstance(y, torch.Tensor) and x.dtype == y.dtype and x.shape == y.shape and torch.equal(x, y)):
                    return False
            elif x != y:
                return False
    return True


class Env:
    """knob environment of one workload"""
    def __init__(self, wl):
        self.wl = wl
        self.saved = {}

    def __enter__(self):
        env = {"TORCHSNAPSHOT_DISABLE_BATCHING": "1" if not self.wl["batching"] else "0",
               "TORCHSNAPSHOT_PER_RANK_MEMORY_BUDGET_BYTES": str(self.wl.get("budget") or 100000000)}
        if self.wl.get("slab"):
            env["TORCHSNAPSHOT_SLAB_SIZE_THRESHOLD_BYTES_OVERRIDE"] = str(self.wl["slab"])
        if self.wl["chunk"]:
            env["TORCHSNAPSHOT_MAX_CHUNK_SIZE_BYTES_OVERRIDE"] = str(self.wl["chunk"])
        if self.wl.get("conc"):
            # fewer concurrent storage operations than write requests: buffers queue up behind the cap and are
            # still waiting when execute_write_reqs hands over to PendingIOWork.complete
            env["TORCHSNAPSHOT_MAX_PER_RANK_IO_CONCURRENCY_OVERRIDE"] = str(self.wl["conc"])
        for k, v in env.items():
            self.saved[k] = os.environ.get(k)
            os.environ[k] = v
        return self

    def __exit__(self, *a):
        for k, v in self.saved.items():
            if v is None:
                os.environ.pop(k, None)
            else:
                os.environ[k] = v
        for k in ("TORCHSNAPSHOT_MAX_CHUNK_SIZE_BYTES_OVERRIDE", "TORCHSNAPSHOT_MAX_PER_RANK_IO_CONCURRENCY_OVERRIDE", "TORCHSNAPSHOT_SLAB_SIZE_THRESHOLD_BYTES_OVERRIDE"):
            if not self.saved.get(k):
                os.environ.pop(k, None)


# --------------------------------------------------------------------------- schedules
def chooser(kind, seed=0):
    """kind: 'fifo' | 'lifo' | ('starve', r) | 'random'"""
    rng = random.Random(seed)

    def rank_of(name):
        return int(name[1:].split(".")[0])

    def choose(labels):
        if kind == "fifo":
            return 0
        if kind == "lifo":
            return len(labels) - 1
        if kind == "random":
            return rng.randrange(len(labels))
        if isinstance(kind, (tuple, list)) and kind[0] == "starve":
            others = [i for i, (n, _) in enumerate(labels) if rank_of(n) != kind[1]]
            return others[0] if others else 0
        if isinstance(kind, (tuple, list)) and kind[0] == "starve_others":
            mine = [i for i, (n, _) in enumerate(labels) if rank_of(n) == kind[1]]
            return mine[0] if mine else 0
        return 0
    return choose


# --------------------------------------------------------------------------- one run
def run_take(wl, path, mode, sched, seed=0, write_policy=None):
    """mode: 'sync' | 'async'.  Returns the World after the run.  Each rank logs `returned` right after take()/wait()
    returned normally and then opens a fresh Snapshot(path) reference and reads its metadata (`fresh_ok`)."""
    from torchsnapshot import Snapshot

    world = World(wl["W"], choose=chooser(sched, seed), write_policy=write_policy)
    repl = ["m/shared"] if wl["replicated"] else None

    def fn(r):
        st = build_state(wl, r)
        mine = path if (r == 0 or not wl.get("diverge")) else f"{path}__arg_of_rank{r}"
        if mode == "sync":
            Snapshot.take(mine, st, replicated=repl)
        else:
            pending = Snapshot.async_take(mine, st, replicated=repl)
            world.event("async_take_returned")
            if wl.get("conc_after"):
                os.environ["TORCHSNAPSHOT_MAX_PER_RANK_IO_CONCURRENCY_OVERRIDE"] = str(wl["conc_after"])
            try:
                pending.wait()
            except Exception:
                # an error handler reports the failure; a later "make sure the last checkpoint finished" waits again on the
                # same handle: it must not report success now
                try:
                    pending.wait()
                    world.event("second_wait_returned")
                except Exception:
                    pass
                raise
        world.event("returned")
        try:
            Snapshot(path).metadata
            world.event("fresh_ok")
        except Exception as e:  # noqa
            world.event("fresh_failed", error=f"{type(e).__name__}: {e}"[:200])
        return True

    with Env(wl):
        world.run(fn)
    return world


def foreground_failure(world, rank) -> bool:
    """async variant: did `rank` fail inside async_take itself (before its background thread and its barrier existed)?
    Its peers then wait in the store barrier until the barrier timeout (30 min in the library) and raise: like the peers
    of a failed rank in the synchronous variant they are blocked, not successful."""
    return not any(e["kind"] == "async_take_returned" and e["rank"] == rank for e in world.events)


def run_restore(wl, path, sched="fifo"):
    """Restore into zeroed states on W ranks; returns (ok, detail)."""
    from torchsnapshot import Snapshot
    world = World(wl["W"], choose=chooser(sched))

    def fn(r):
        st = build_state(wl, r, fill=False)
        Snapshot(path).restore(st)
        return state_equal(st, build_state(wl, r))

    with Env(wl):
        res, errs = world.run(fn)
    if any(e is not None for e in errs):
        return False, f"restore raised: {[type(e).__name__ + ': ' + str(e)[:120] if e else None for e in errs]}"
    if not all(res):
        return False, f"restored state differs from the saved state on ranks {[i for i, x in enumerate(res) if not x]}"
    return True, ""


# --------------------------------------------------------------------------- reading the event log
def writes_of(world):
    """[{rank, path, begin, end|None, failed, size}] in begin order"""
    out, open_ = [], {}
    for e in world.events:
        if e["kind"] == "write_begin":
            w = {"rank": e["rank"], "path": e["path"], "begin": e["n"], "end": None, "failed": False, "size": e["size"], "nth": e["nth"]}
            open_[(e["rank"], e["path"], e["nth"])] = w
            out.append(w)
        elif e["kind"] == "write_end":
            open_[(e["rank"], e["path"], e["nth"])]["end"] = e["n"]
        elif e["kind"] == "write_fail":
            open_[(e["rank"], e["path"], e["nth"])]["failed"] = True
    return out


def oracle_commit_order(world, tag):
    """C02 evaluated directly on the real execution.  Returns list of (signature, message)."""
    bad = []
    ws = writes_of(world)
    metas = [w for w in ws if w["path"] == META]
    pay = [w for w in ws if w["path"] != META]
    if len(metas) > 1:
        bad.append((f"C02:{tag}:metadata-written-more-than-once", f"{len(metas)} metadata writes by ranks {[w['rank'] for w in metas]}"))
    for mw in metas:
        late = [w for w in pay if w["end"] is None or w["end"] > mw["begin"]]
        if late:
            w = late[0]
            bad.append((f"C02:{tag}:metadata-written-before-payload-complete",
                        f"metadata write began (event {mw['begin']}) before payload write {w['path']!r} of rank {w['rank']} completed (end={w['end']})"))
    for e in world.events:
        if e["kind"] == "returned":
            done = [mw for mw in metas if mw["end"] is not None and mw["end"] < e["n"]]
            if not done:
                bad.append((f"C02:{tag}:returned-before-commit", f"rank {e['rank']} returned (event {e['n']}) before the metadata write completed"))
        if e["kind"] == "fresh_failed":
            bad.append((f"C02:{tag}:fresh-reference-unreadable-after-return", f"rank {e['rank']}: Snapshot(path).metadata failed right after return: {e['error']}"))
    return bad


# --------------------------------------------------------------------------- crash cuts on real storage
def materialise_cut(src_root, dst_root, world, k, variant_rng, torn_meta_at=None):
    """State of the storage if every process is killed just before event k."""
    os.makedirs(dst_root, exist_ok=True)
    inflight = []
    for w in writes_of(world):
        src = os.path.join(src_root, w["path"])
        dst = os.path.join(dst_root, w["path"])
        if w["begin"] >= k or not os.path.exists(src):
            continue
        data = open(src, "rb").read()
        if w["end"] is not None and w["end"] < k:
            keep = data
        else:                                   # in flight: absent, partial or complete
            inflight.append(w["path"])
            v = variant_rng.choice(["absent", "half", "full"]) if w["path"] != META else "meta"
            if v == "absent":
                continue
            keep = data[: len(data) // 2] if v == "half" else data
            if v == "meta":
                keep = data[: (torn_meta_at if torn_meta_at is not None else len(data) // 2)]
        os.makedirs(os.path.dirname(dst), exist_ok=True)
        with open(dst, "wb") as f:
            f.write(keep)
    return inflight


def check_cut(wl, cut_root):
    """-> None if acceptable (no readable metadata, or a full restore equal to the saved state), else message"""
    from torchsnapshot import Snapshot
    try:
        Snapshot(cut_root).metadata
    except Exception:
        return None
    ok, detail = run_restore(wl, cut_root)
    return None if ok else f"metadata is readable but {detail}"


# --------------------------------------------------------------------------- trace for the Coq model (sync take)
CODE = {"AWBegin": 0, "AWEnd": 1, "AAdvance": 2, "AArrive": 3, "APass": 4, "AMetaBegin": 5, "AMetaEnd": 6,
        "ASkipMeta": 7, "AReturn": 8, "AFail": 9}


def n_global_keys(wl):
    keys = {"m"}
    for r, spec in enumerate(wl["ranks"]):
        if spec["extra_key"]:
            keys.add(f"only{r}")
    return len(keys)


def model_trace(wl, world):
    """Project the real sync-take execution onto the actions of coq/model/Commit.v.
    Returns (events [(rank, code)], payload-write counts seen per rank)."""
    G = n_global_keys(wl)
    nbar = [0] * wl["W"]
    evs = []
    nwr = [0] * wl["W"]
    failed = set()
    for e in world.events:
        r = e["rank"]
        if r in failed and e["kind"] in ("write_begin", "write_end") and e["path"] != META:
            # payload writes of a rank whose take() is already failing: tasks created before the failure still run
            # for a moment; the model stops the rank at the failure, which is equivalent for everything C02/C03 state
            continue
        if e["kind"] == "write_fail":
            failed.add(r)
        if e["kind"] == "write_begin":
            if e["path"] == META:
                evs.append((r, CODE["AMetaBegin"]))
            else:
                nwr[r] += 1
                evs.append((r, CODE["AWBegin"]))
        elif e["kind"] == "write_end":
            evs.append((r, CODE["AMetaEnd"] if e["path"] == META else CODE["AWEnd"]))
        elif e["kind"] == "write_fail":
            evs.append((r, CODE["AFail"]))
        elif e["kind"] == "collective" and e["coll"] == "barrier":
            nbar[r] += 1
            if nbar[r] == G + 1:
                evs.append((r, CODE["AAdvance"]))
                evs.append((r, CODE["AArrive"]))
            elif nbar[r] == G + 2:
                if r != 0:
                    evs.append((r, CODE["ASkipMeta"]))
                evs.append((r, CODE["AArrive"]))
        elif e["kind"] == "collective_done" and e["coll"] == "barrier":
            if nbar[r] in (G + 1, G + 2):
                evs.append((r, CODE["APass"]))
        elif e["kind"] == "returned":
            evs.append((r, CODE["AReturn"]))
    return evs, nwr
