"""C03 - A failed write never yields a committed snapshot, and the failure is reported."""
from __future__ import annotations

import os
import shutil

from lib import coqrun
from lib.core import Ctx, Failure, Mismatch, Result
from lib.dsched import Deadlock
from lib.tocoq import term, val
from props import commit_common as cc

PROP = "C03"
PROPS_FILE = "props/C03.v"
GEN = ["gen_commit", "gen_barrier"]
CORRESPONDENCES = ["sync-take-with-failure:real-trace-accepted-by-model"]
RULE = ("real Snapshot.take and async_take+wait on 1-4 simulated ranks with the n-th storage write of rank r failing, "
        "for every (r, n) of the generated workloads (payload writes and the metadata write), sync and async, under "
        "schedules {fifo, random, starve r, starve others}. Non-trivial = at least 2 ranks; distinct by "
        "(workload, mode, schedule, r, n).")
TRUSTED = [
    "Coq 8.16.1 kernel and vm_compute; theorems closed under the global context",
    "translator/gen_commit.py; barrier semantics of coq/model/Commit.v (a raised rank never arrives; a rank blocked in a barrier may time out and raise)",
    "harness: lib/dsched.py + lib/world.py (failure injected in the hooked FS plugin before the bytes are written)",
]
ASSUMPTIONS = [
    "in the synchronous variant peers of a failed rank stay blocked in the collective barrier until the process-group "
    "timeout fires; the model has a timeout action (a blocked rank may give up and raise at any time, also spuriously) and "
    "every theorem holds with it; the harness does not simulate timeouts: a blocked peer is counted as 'did not report success'",
    "the async variant's error propagation through the store barrier is proved under C13 and exercised here end to end; when "
    "a write fails inside async_take itself (tight memory budget: I/O overlaps staging) the failing rank raises from async_take "
    "and its peers wait for the store-barrier timeout (blocked, as in the synchronous variant)",
]
IMPORTS = "From TS Require Import model.Commit.\n"


def correspond(ctx: Ctx) -> Result:
    res = Result(rule=RULE)
    rng = ctx.rng
    coq, meta = [], []
    for i, wl in enumerate(cc.workloads(rng, ctx.n(6, 30))):
        for mode in ("sync", "async"):
            root = ctx.scratch("ref")
            ref = cc.run_take(wl, os.path.join(root, "snap"), mode, "fifo")
            shutil.rmtree(root, ignore_errors=True)
            if ref.deadlock or any(e is not None for e in ref.errors):
                res.failures.append(Failure(f"C03:{mode}:reference-run-failed", f"fault-free {mode} take failed: {ref.errors} {ref.deadlock}", {"workload": wl, "mode": mode}))
                continue
            counts = list(ref.nwrites)
            _, ref_nwr = cc.model_trace(wl, ref) if mode == "sync" else (None, None)
            targets = [(r, n) for r in range(wl["W"]) for n in range(counts[r])]
            if not ctx.thorough and wl.get("conc_after") and mode == "async":
                targets = [t for t in targets if t[0] == 0][:12]               # designed: every write of rank 0
            elif not ctx.thorough and len(targets) > 6:
                keep = [t for t in targets if t == (0, counts[0] - 1)]          # always the metadata write
                targets = keep + rng.sample([t for t in targets if t not in keep], 5)
            for (fr, fn_) in targets:
                scheds = ["fifo", "random"] + ([("starve", fr)] if wl["W"] > 1 else [])
                if ctx.thorough:
                    scheds.append(("starve_others", fr))
                for sched in scheds:
                    root = ctx.scratch("fail")
                    path = os.path.join(root, "snap")
                    seed = rng.randrange(1 << 30)
                    how = "fail-late" if wl.get("conc_after") else ("fail-empty", "fail-late", "fail")[seed % 3]     # a third of the faults carry an EMPTY message
                    policy = (lambda r, p, n, fr=fr, fn_=fn_, how=how: how if (r == fr and n == fn_) else None)
                    world = cc.run_take(wl, path, mode, sched, seed, write_policy=policy)
                    replay = {"workload": wl, "mode": mode, "sched": sched, "seed": seed, "fail_rank": fr, "fail_nth": fn_, "how": how}
                    ws = cc.writes_of(world)
                    failed = [w for w in ws if w["failed"]]
                    is_meta = bool(failed) and failed[0]["path"] == cc.META
                    res.case({"W": wl["W"], "mode": mode, "sched": str(sched), "fail": [fr, fn_], "what": "metadata" if is_meta else "payload"},
                             nontrivial=wl["W"] >= 2)
                    res.count("mode", mode); res.count("failed_write", "metadata" if is_meta else "payload"); res.count("W", wl["W"]); res.count("message", "empty" if how == "fail-empty" else "text")
                    if not failed:
                        res.notes.append(f"write #{fn_} of rank {fr} did not happen in this run")
                        shutil.rmtree(root, ignore_errors=True)
                        continue
                    metas = [w for w in ws if w["path"] == cc.META]
                    committed = any(w["end"] is not None for w in metas)
                    on_disk = os.path.exists(os.path.join(path, cc.META))
                    # --- the property, directly ------------------------------------------------
                    if not is_meta and (metas or on_disk):
                        res.failures.append(Failure(f"C03:{mode}:metadata-written-after-payload-failure",
                                                    f"payload write #{fn_} of rank {fr} failed but the metadata was written [W={wl['W']} sched={sched}]", replay))
                    if is_meta and on_disk:
                        try:
                            from torchsnapshot import Snapshot
                            Snapshot(path).metadata
                            res.failures.append(Failure(f"C03:{mode}:metadata-readable-after-failed-metadata-write",
                                                        "the metadata write failed but a readable metadata file exists", replay))
                        except Exception:
                            pass
                    returned = [e["rank"] for e in world.events if e["kind"] == "returned"]
                    if returned and not committed:
                        res.failures.append(Failure(f"C03:{mode}:success-reported-without-commit",
                                                    f"ranks {returned} reported success although the snapshot was not committed (failed write #{fn_} of rank {fr}) [W={wl['W']} sched={sched}]", replay))
                    if mode == "sync":
                        if returned:
                            # C03_sync_failure_means_nobody_returns: after any failed storage write no rank's take() returns
                            res.failures.append(Failure("C03:sync:rank-returned-after-a-failed-write",
                                                        f"ranks {returned} returned normally from take() although write #{fn_} of rank {fr} failed [W={wl['W']} sched={sched}]", replay))
                        if world.errors[fr] is None or isinstance(world.errors[fr], Deadlock):
                            res.failures.append(Failure("C03:sync:failing-rank-did-not-raise",
                                                        f"rank {fr}'s write #{fn_} failed but its take() did not raise: {world.errors[fr]!r}", replay))
                    else:
                        quiet = [r for r in range(wl["W"]) if world.errors[r] is None]
                        if quiet:
                            res.failures.append(Failure("C03:async:wait-did-not-raise-on-every-rank",
                                                        f"write #{fn_} of rank {fr} failed but wait() returned normally on ranks {quiet} [W={wl['W']} sched={sched}]", replay))
                        again = sorted({e["rank"] for e in world.events if e["kind"] == "second_wait_returned"})
                        if again:
                            res.failures.append(Failure("C03:async:second-wait-returned-normally-after-a-failure",
                                                        f"write #{fn_} of rank {fr} failed: wait() raised, a second wait() on the same PendingSnapshot returned normally on ranks {again} "
                                                        f"although nothing was committed [W={wl['W']} sched={sched}]", replay))
                        hung = [r for r in range(wl["W"]) if isinstance(world.errors[r], Deadlock)]
                        fg = cc.foreground_failure(world, fr)
                        res.count("async.failure_phase", "foreground (async_take raised)" if fg else "background")
                        if hung and not fg:
                            res.failures.append(Failure("C03:async:hang-after-failure", f"ranks {hung} blocked for ever after the failure of rank {fr}", replay))
                    # --- correspondence with the model (sync) ------------------------------------
                    if mode == "sync":
                        evs, _ = cc.model_trace(wl, world)
                        status = []
                        for r in range(wl["W"]):
                            if r in returned:
                                status.append(2)
                            elif r == fr:
                                status.append(1)
                            else:
                                status.append(0)
                        mstate = 2 if committed else (1 if metas else 0)
                        exp = [[1] * len(evs), status, mstate]
                        coq.append((f"({term(ref_nwr)}, {term([tuple(e) for e in evs])})", val(exp)))
                        meta.append(replay)
                    shutil.rmtree(root, ignore_errors=True)
    bad, errs = coqrun.run_cases("C03_sync", IMPORTS, "obs_commit", coq, shard=100, in_type="list Z * list (Z * Z)")
    for e in errs:
        res.mismatches.append(Mismatch(CORRESPONDENCES[0], "coqc error", None, e))
    for i in bad:
        res.mismatches.append(Mismatch(CORRESPONDENCES[0], meta[i], coq[i][0][:800], None))
    res.traces_validated += len(coq)
    return res


def replay(ctx: Ctx, data):
    r = Result()
    wl = data["workload"]
    root = ctx.scratch("replay")
    path = os.path.join(root, "snap")
    fr, fn_ = data["fail_rank"], data["fail_nth"]
    sched = data["sched"] if isinstance(data["sched"], str) else tuple(data["sched"])
    world = cc.run_take(wl, path, data["mode"], sched, data["seed"], write_policy=lambda rr, p, n: data.get("how", "fail") if (rr == fr and n == fn_) else None)
    ws = cc.writes_of(world)
    metas = [w for w in ws if w["path"] == cc.META]
    failed = [w for w in ws if w["failed"]]
    committed = any(w["end"] is not None for w in metas)
    returned = [e["rank"] for e in world.events if e["kind"] == "returned"]
    out = None
    if failed and failed[0]["path"] != cc.META and metas:
        out = Failure(f"C03:{data['mode']}:metadata-written-after-payload-failure", "metadata written after a payload failure", data)
    elif returned and not committed:
        out = Failure(f"C03:{data['mode']}:success-reported-without-commit", f"ranks {returned} reported success without commit", data)
    elif data["mode"] == "async" and any(world.errors[q] is None for q in range(wl["W"])):
        out = Failure("C03:async:wait-did-not-raise-on-every-rank", "wait() returned normally after a failure", data)
    elif data["mode"] == "sync" and (world.errors[fr] is None or isinstance(world.errors[fr], Deadlock)):
        out = Failure("C03:sync:failing-rank-did-not-raise", "failing rank did not raise", data)
    shutil.rmtree(root, ignore_errors=True)
    return out


MANIFEST = {
    "level_text": ("Machine-checked proof (Coq 8.16.1) over the same source-translated commit skeleton as C02, with failure "
                   "events: in every run of the synchronous protocol (any ranks, workloads, interleavings, any failing write) an "
                   "incomplete payload implies the metadata file does not exist in any form, the failing rank raises and stays "
                   "raised, no rank returns unless the metadata is complete, and once any storage write has failed no rank "
                   "returns at all (peers can only time out in a barrier and raise: timeouts are part of the model). Tied to the code by the translator (per-run "
                   "checker obligation) and by fault injection on the real take/async_take in a simulated multi-rank world: the "
                   "n-th write of rank r fails for every (r, n) of the generated workloads; real traces must be accepted by the "
                   "model and satisfy the property directly."),
    "level_note": ("Trusted: Coq kernel+VM, translator, barrier semantics with a nondeterministic timeout action (the real "
                   "gloo timeout is not exercised by the harness), simulated process group/store/FS. Async error propagation is proved "
                   "under C13. No axioms."),
    "technique": "Coq safety proofs over the source-translated commit skeleton with failure events + exhaustive (rank, write) fault injection on real code",
    "design_ref": "DESIGN.md section 5, C03",
}
