"""Python values -> Gallina literals.

Two printers:
  term(x)  generic Gallina term: int -> (n)%Z, bool, list -> [..], tuple -> (..,..),
           None -> None, Some(x) -> (Some x), Raw("text") verbatim, Ctor("Name", a, b) -> (Name a b),
           Nat(n) -> n%nat, str -> list of code points (list Z)
  val(x)   the universal observation type TS.model.Base.val:
           int/bool -> VZ, str -> VL of code points, bytes -> VL of bytes, list/tuple -> VL, None -> VL []
"""
from __future__ import annotations


class Raw:
    def __init__(self, text: str):
        self.text = text


class Some:
    def __init__(self, x):
        self.x = x


class Nat:
    def __init__(self, n: int):
        assert n >= 0
        self.n = n


class Ctor:
    def __init__(self, name: str, *args):
        self.name = name
        self.args = args


def z(n: int) -> str:
    return f"({n})%Z" if n < 0 else f"{n}%Z"


def term(x) -> str:
    if isinstance(x, Raw):
        return x.text
    if isinstance(x, bool):
        return "true" if x else "false"
    if isinstance(x, int):
        return z(x)
    if isinstance(x, Nat):
        return f"{x.n}%nat"
    if x is None:
        return "None"
    if isinstance(x, Some):
        return f"(Some {term(x.x)})"
    # code points / bytes are non-negative: plain numerals (Z_scope is open in every cases file)
    if isinstance(x, str):
        return "[" + "; ".join(str(ord(c)) for c in x) + "]"
    if isinstance(x, (bytes, bytearray, memoryview)):
        return "[" + "; ".join(str(b) for b in bytes(x)) + "]"
    if isinstance(x, list):
        return "[" + "; ".join(term(e) for e in x) + "]"
    if isinstance(x, tuple):
        assert len(x) >= 2
        return "(" + ", ".join(term(e) for e in x) + ")"
    if isinstance(x, Ctor):
        if not x.args:
            return x.name
        return "(" + x.name + " " + " ".join(term(a) for a in x.args) + ")"
    raise TypeError(f"tocoq.term: unsupported {type(x)}")


def val(x) -> str:
    if isinstance(x, Raw):
        return x.text
    if isinstance(x, bool):
        return "(VZ 1)" if x else "(VZ 0)"
    if isinstance(x, int):
        return f"(VZ ({x}))" if x < 0 else f"(VZ {x})"
    if x is None:
        return "(VL [])"
    if isinstance(x, str):
        return "(VL [" + "; ".join(val(ord(c)) for c in x) + "])"
    if isinstance(x, (bytes, bytearray, memoryview)):
        return "(VL [" + "; ".join(val(b) for b in bytes(x)) + "])"
    if isinstance(x, (list, tuple)):
        return "(VL [" + "; ".join(val(e) for e in x) + "])"
    raise TypeError(f"tocoq.val: unsupported {type(x)}")
