"""A simulated multi-rank job inside one process, running the REAL torchsnapshot code.

W ranks are threads under the deterministic scheduler (lib/dsched.py).  While a World is `patched()`:
  * PGWrapper.{get_rank,get_world_size,barrier,broadcast_object_list,all_gather_object,scatter_object_list} go to an
    in-memory rendezvous that records the collective sequence of every rank and detects kind mismatch / deadlock;
  * torchsnapshot.snapshot.get_or_create_store returns an in-memory store (set/get/wait are scheduling points and
    are logged; its keys persist for the lifetime of the World, like a job-wide TCPStore);
  * torchsnapshot.snapshot.Thread is a scheduler-managed thread (background completion of async_take);
  * the filesystem plugin is wrapped: every write is logged (rank, path, size, global order), is a scheduling point
    before and after, and can be failed by a policy.
Nothing in /repo is modified; the patches are undone on exit."""
from __future__ import annotations

import contextlib
import copy
import pickle

from .dsched import Deadlock, DSched


class CollectiveMismatch(RuntimeError):
    pass


@contextlib.contextmanager
def safe_gc():
    """Run real torchsnapshot code with the cyclic GC switched off and collect afterwards.

    When a pipeline fails, torchsnapshot abandons pending asyncio tasks.  If the collector happens to finalise such a
    coroutine while some thread is inside ThreadPoolExecutor.submit (which holds a non-reentrant lock), the coroutine's
    `async with aiofiles.open(...)` exit handler calls run_in_executor -> submit again and the thread deadlocks on
    itself.  That is an artefact of finaliser timing, not of the property under test, so the harness defers collection
    to a point where no executor lock is held."""
    import gc
    was = gc.isenabled()
    gc.disable()
    try:
        yield
    finally:
        if was:
            gc.enable()
        import sys
        hook = sys.unraisablehook
        sys.unraisablehook = lambda *a: None      # abandoned coroutines complain when finalised on a closed loop
        try:
            gc.collect()
        except Exception:  # noqa
            pass
        finally:
            sys.unraisablehook = hook


class InjectedFailure(OSError):
    pass


class FakeStore:
    """dist.Store look-alike; every operation is a scheduling point."""
    def __init__(self, world):
        self.world = world
        self.d = {}

    def set(self, k, v):
        self.world.sched.point(f"store.set:{self.world.short(k)}")
        self.d[k] = v.encode() if isinstance(v, str) else bytes(v)
        self.world.event("store_set", key=k, value=self.d[k])

    def get(self, k):
        self.world.sched.point(f"store.get:{self.world.short(k)}", enabled=lambda: k in self.d)
        self.world.event("store_get", key=k, value=self.d[k])
        return self.d[k]

    def wait(self, keys, timeout=None):
        keys = list(keys)
        self.world.sched.point(f"store.wait:{len(keys)}", enabled=lambda: all(k in self.d for k in keys))
        self.world.event("store_wait", keys=keys)


class World:
    def __init__(self, W: int, choose=None, write_policy=None, max_steps=20000):
        self.W = W
        self.sched = DSched(choose, max_steps=max_steps)
        self.store = FakeStore(self)
        self.events = []                       # global, totally ordered
        self.coll_log = [[] for _ in range(W)]  # per rank: collective kinds in issue order
        self.coll_pg = [[] for _ in range(W)]   # per rank: the pg of the PGWrapper that issued each of them
        self.write_policy = write_policy       # (rank, path, nth_write_of_rank) -> None | "fail"
        self.nwrites = [0] * W
        self._slots = {}
        self._gen = 0
        self._results = {}
        self.results = [None] * W
        self.errors = [None] * W
        self.deadlock = None
        self._nbg = 0
        self.prefix_map = {}

    # ------------------------------------------------------------------ helpers
    def short(self, key: str) -> str:
        return key[-24:]

    def rank(self) -> int:
        w = self.sched.current()
        if w is None:
            raise RuntimeError("PGWrapper used outside a simulated rank")
        return w.tags["rank"]

    def grank(self, pg) -> int:
        """rank index of the calling simulated rank IN the group `pg`: a group object carrying `_verif_perm` (list: world
        rank -> group rank, a permutation that fixes 0 - torch.distributed's src arguments are global ranks) numbers the
        ranks differently from the default group; everything else is numbered like the default group"""
        perm = getattr(pg, "_verif_perm", None)
        return perm[self.rank()] if perm else self.rank()

    @staticmethod
    def _inv(pg, W):
        perm = getattr(pg, "_verif_perm", None) or list(range(W))
        inv = [0] * W
        for q, g in enumerate(perm):
            inv[g] = q
        return perm, inv

    def event(self, kind, **kw):
        w = self.sched.current()
        e = {"n": len(self.events), "rank": w.tags["rank"] if w else None, "thread": w.name if w else None, "kind": kind}
        e.update(kw)
        self.events.append(e)

    # ------------------------------------------------------------------ collectives
    def _call_site(self):
        """the torchsnapshot function that issued the collective (two ranks pairing the same KIND of collective from
        different call sites exchange unrelated payloads: with real gloo that is silent corruption)"""
        import sys
        f = sys._getframe(2)
        while f is not None:
            fn = f.f_code.co_filename
            if "torchsnapshot" in fn and not fn.endswith("pg_wrapper.py"):
                return f"{fn.rsplit('/', 1)[-1]}:{f.f_code.co_name}"
            f = f.f_back
        return "?"

    def collective(self, kind, payload, pg="unknown"):
        r = self.rank()
        site = self._call_site()
        self.sched.point(f"coll:{kind}")
        self.coll_log[r].append(kind)
        self.coll_pg[r].append(pg)          # the process group object the PGWrapper that issued it was built with
        self.event("collective", coll=kind, site=site)
        gen = self._gen
        kind_site = f"{kind}@{site}"
        self._slots[r] = (kind_site, payload)
        if len(self._slots) == self.W:
            kinds = {k for k, _ in self._slots.values()}
            if len(kinds) > 1:
                self._results[gen] = ("mismatch", {q: k for q, (k, _) in self._slots.items()})
            else:
                # pickled once; every rank unpickles its OWN copy below (object collectives never share objects
                # between ranks - code that mutates a gathered object must not affect its peers)
                self._results[gen] = ("ok", pickle.dumps({q: p for q, (_, p) in self._slots.items()}))
            self._slots = {}
            self._gen += 1
        else:
            self.sched.point(f"coll-wait:{kind}", enabled=lambda: self._gen != gen)
        st, res = self._results[gen]
        if st != "ok":
            raise CollectiveMismatch(f"collective mismatch: {res}")
        self.event("collective_done", coll=kind)
        return pickle.loads(res)

    # ------------------------------------------------------------------ patching
    @contextlib.contextmanager
    def patched(self):
        import torchsnapshot.snapshot as snapmod
        import torchsnapshot.storage_plugin as spmod
        from torchsnapshot.pg_wrapper import PGWrapper
        from torchsnapshot.storage_plugins.fs import FSStoragePlugin

        world = self
        saved = {n: getattr(PGWrapper, n) for n in ("get_rank", "get_world_size", "barrier", "broadcast_object_list",
                                                    "all_gather_object", "scatter_object_list")}
        saved_store, saved_thread, saved_fs = snapmod.get_or_create_store, snapmod.Thread, spmod.FSStoragePlugin

        def bcast(self, obj_list, src=0):
            res = world.collective("broadcast_object_list", list(obj_list), pg=getattr(self, "pg", None))
            obj_list[:] = res[world._inv(getattr(self, "pg", None), world.W)[1][src]]

        def allgather(self, obj_list, obj):
            res = world.collective("all_gather_object", obj, pg=getattr(self, "pg", None))
            perm, _ = world._inv(getattr(self, "pg", None), world.W)
            for r in range(world.W):
                obj_list[perm[r]] = res[r]

        def scatter(self, output_list, input_list, src=0):
            res = world.collective("scatter_object_list", input_list, pg=getattr(self, "pg", None))
            output_list[0] = res[world._inv(getattr(self, "pg", None), world.W)[1][src]][world.grank(getattr(self, "pg", None))]

        PGWrapper.get_rank = lambda self: world.grank(getattr(self, "pg", None))
        PGWrapper.get_world_size = lambda self: world.W
        PGWrapper.barrier = lambda self: (world.collective("barrier", None, pg=getattr(self, "pg", None)), None)[1]
        PGWrapper.broadcast_object_list = bcast
        PGWrapper.all_gather_object = allgather
        PGWrapper.scatter_object_list = scatter
        snapmod.get_or_create_store = lambda pg_wrapper: world.store

        class DThread:
            def __init__(self, target=None, args=(), kwargs=None, **_):
                self._target, self._args, self._kwargs = target, args, kwargs or {}
                self._w = None

            def start(self):
                creator = world.sched.current()
                world._nbg += 1
                tags = dict(creator.tags)
                tags["background"] = True
                self._w = world.sched.spawn(f"{creator.name}.bg{world._nbg}", lambda: self._target(*self._args, **self._kwargs), tags=tags)
                # Thread.start() is a preemption point: the new thread may run - even to completion - before its creator
                # executes the statement after start()
                world.sched.point("thread_start")

            def join(self, timeout=None):
                world.sched.point("join", enabled=lambda: self._w.state == "done")

            def is_alive(self):
                return self._w is not None and self._w.state != "done"

        snapmod.Thread = DThread

        class HookedFS(FSStoragePlugin):
            async def write(self, write_io):
                r = world.rank()
                nth = world.nwrites[r]
                world.nwrites[r] += 1
                size = len(write_io.buf)
                world.sched.point(f"write:{write_io.path[-20:]}")
                world.event("write_begin", path=write_io.path, size=size, root=self.root, nth=nth)
                verdict = world.write_policy(r, write_io.path, nth) if world.write_policy is not None else None
                if verdict == "fail-late" and not write_io.path.endswith(".snapshot_metadata"):
                    # the bytes reach storage but the operation reports an error at the end (an error at flush/close, a lost
                    # acknowledgement): unlike an immediate failure it completes TOGETHER with sibling writes in flight
                    await super().write(write_io)
                    world.sched.point(f"written-then-failed:{write_io.path[-20:]}")
                    world.event("write_fail", path=write_io.path, nth=nth)
                    raise InjectedFailure(f"injected late failure of write #{nth} of rank {r} ({write_io.path})")
                if verdict in ("fail", "fail-empty", "fail-late"):
                    world.event("write_fail", path=write_io.path, nth=nth)
                    if verdict == "fail-empty":
                        raise InjectedFailure()      # an exception whose str() is empty (like a bare TimeoutError())
                    raise InjectedFailure(f"injected failure of write #{nth} of rank {r} ({write_io.path})")
                await super().write(write_io)
                world.sched.point(f"written:{write_io.path[-20:]}")
                world.event("write_end", path=write_io.path, size=size, root=self.root, nth=nth)

            async def read(self, read_io):
                await super().read(read_io)
                world.event("read", path=read_io.path, byte_range=read_io.byte_range)

        spmod.FSStoragePlugin = HookedFS
        try:
            yield self
        finally:
            for n, f in saved.items():
                setattr(PGWrapper, n, f)
            snapmod.get_or_create_store, snapmod.Thread, spmod.FSStoragePlugin = saved_store, saved_thread, saved_fs

    # ------------------------------------------------------------------ running
    def run(self, fn):
        """fn(rank) on every rank.  Returns (results, errors); a deadlock is recorded in self.deadlock and reported as
        a Deadlock error on the ranks that were parked."""
        import logging
        logging.disable(logging.CRITICAL)

        def mk(r):
            def body():
                try:
                    self.results[r] = fn(r)
                except Exception as e:  # noqa
                    self.errors[r] = e
                    self.event("rank_raised", error=type(e).__name__, msg=str(e)[:300])
            return body
        for r in range(self.W):
            self.sched.spawn(f"r{r}", mk(r), tags={"rank": r})
        with self.patched(), safe_gc():
            try:
                self.sched.run()
            except Deadlock as d:
                self.deadlock = self.sched.deadlock
                for name, label in self.deadlock:
                    r = int(name[1:].split(".")[0])
                    if self.errors[r] is None and self.results[r] is None:
                        self.errors[r] = d
        return self.results, self.errors
