"""Driving Coq: project generation, full .vo builds (coq_makefile + make), Print Assumptions capture,
and evaluation of model cases with vm_compute inside coqc."""
from __future__ import annotations

import fcntl
import glob
import os
import re
import subprocess
import time
from concurrent.futures import ThreadPoolExecutor

COQ = "/verif/coq"
LOCK = os.path.join(COQ, ".lock")
SUBDIRS = ["model", "proofs", "props", "gen"]


class _Lock:
    """Re-entrant (per process) exclusive lock over coq/gen + the .vo build: translate, make and
    Print Assumptions of one check run form one critical section, so concurrent checks (possibly
    against different source trees, see VERIF_REPO) never see each other's generated files."""
    depth = 0
    f = None

    def __enter__(self):
        if _Lock.depth == 0:
            _Lock.f = open(LOCK, "w")
            fcntl.flock(_Lock.f, fcntl.LOCK_EX)
        _Lock.depth += 1
        return self

    def __exit__(self, *a):
        _Lock.depth -= 1
        if _Lock.depth == 0:
            fcntl.flock(_Lock.f, fcntl.LOCK_UN)
            _Lock.f.close()


def locked():
    return _Lock()


def _write_if_changed(path: str, text: str) -> bool:
    try:
        if open(path).read() == text:
            return False
    except FileNotFoundError:
        pass
    with open(path, "w") as f:
        f.write(text)
    return True


def write_gen(name: str, text: str) -> bool:
    """Write coq/gen/<name>.v only when its content changes (keeps make incremental)."""
    os.makedirs(os.path.join(COQ, "gen"), exist_ok=True)
    return _write_if_changed(os.path.join(COQ, "gen", name + ".v"), text)


def project() -> None:
    files = []
    for d in SUBDIRS:
        files += sorted(glob.glob(os.path.join(COQ, d, "*.v")))
    rel = [os.path.relpath(f, COQ) for f in files]
    text = "-Q . TS\n-arg -w -arg -notation-overridden,-deprecated-hint-without-locality,-ambiguous-paths,-deprecated-instance-without-locality\n" + "\n".join(rel) + "\n"
    changed = _write_if_changed(os.path.join(COQ, "_CoqProject"), text)
    if changed or not os.path.exists(os.path.join(COQ, "Makefile.coq")):
        subprocess.run(["coq_makefile", "-f", "_CoqProject", "-o", "Makefile.coq"], cwd=COQ, check=True,
                       stdout=subprocess.DEVNULL, stderr=subprocess.DEVNULL)


def make(targets: list[str] | None = None, timeout: int = 1500, jobs: int = 6):
    """Full .vo build of the given targets (all when None). Returns (ok, log)."""
    with _Lock():
        project()
        cmd = ["timeout", str(timeout), "make", "-f", "Makefile.coq", f"-j{jobs}"] + (targets or [])
        t0 = time.time()
        p = subprocess.run(cmd, cwd=COQ, stdout=subprocess.PIPE, stderr=subprocess.STDOUT, text=True)
        return p.returncode == 0, p.stdout, time.time() - t0


def failing_file(log: str) -> str | None:
    m = re.findall(r'File "\./([^"]+)", line (\d+)', log)
    if m:
        return f"{m[-1][0]}:{m[-1][1]}"
    m = re.findall(r"\*\*\* \[[^\]]*?([\w/]+\.vo)\]", log)
    return m[-1] if m else None


def error_excerpt(log: str, n: int = 25) -> str:
    lines = log.strip().splitlines()
    idx = [i for i, l in enumerate(lines) if l.startswith("File ") or "Error" in l]
    if idx:
        return "\n".join(lines[max(0, idx[0] - 1): idx[0] + n])
    return "\n".join(lines[-n:])


def theorems_of(props_file: str) -> list[str]:
    text = open(os.path.join(COQ, props_file)).read()
    text = re.sub(r"\(\*.*?\*\)", "", text, flags=re.S)
    return re.findall(r"^\s*(?:Theorem|Corollary)\s+([\w']+)", text, flags=re.M)


def print_assumptions(props_file: str, timeout: int = 600):
    """Recompile the props file alone and capture, per `Print Assumptions X`, the axioms reported.
    Returns (ok, {theorem: [axiom names]}, raw)."""
    with _Lock():
        p = subprocess.run(["timeout", str(timeout), "coqc", "-Q", ".", "TS", "-w",
                            "-notation-overridden,-deprecated-hint-without-locality,-ambiguous-paths,-deprecated-instance-without-locality",
                            props_file], cwd=COQ, stdout=subprocess.PIPE, stderr=subprocess.STDOUT, text=True)
    text = open(os.path.join(COQ, props_file)).read()
    text = re.sub(r"\(\*.*?\*\)", "", text, flags=re.S)
    asked = re.findall(r"Print Assumptions\s+([\w'.]+)\s*\.", text)
    out = p.stdout
    blocks = []
    cur = None
    for line in out.splitlines():
        if line.startswith("Closed under the global context"):
            if cur is not None:
                blocks.append(cur)
                cur = None
            blocks.append([])
        elif line.startswith("Axioms:"):
            if cur is not None:
                blocks.append(cur)
            cur = []
        elif cur is not None:
            m = re.match(r"^([\w'.]+)\s*:", line)
            if m:
                cur.append(m.group(1))
    if cur is not None:
        blocks.append(cur)
    res = {}
    for i, name in enumerate(asked):
        res[name] = blocks[i] if i < len(blocks) else None
    return p.returncode == 0, res, out


HEADER = """From Coq Require Import ZArith List Bool.
Import ListNotations.
Open Scope Z_scope.
From TS Require Import model.Base.
"""


def coqc_text(name: str, text: str, timeout: int = 600):
    d = os.path.join(COQ, "cases")
    os.makedirs(d, exist_ok=True)
    path = os.path.join(d, name + ".v")
    with open(path, "w") as f:
        f.write(text)
    p = subprocess.run(["bash", "-c", f"ulimit -s unlimited; exec timeout {timeout} coqc -Q . TS cases/{name}.v"],
                       cwd=COQ, stdout=subprocess.PIPE, stderr=subprocess.STDOUT, text=True)
    for ext in (".vo", ".vok", ".vos", ".glob"):
        try:
            os.remove(os.path.join(d, name + ext))
        except FileNotFoundError:
            pass
    try:
        os.remove(os.path.join(d, "." + name + ".aux"))
    except FileNotFoundError:
        pass
    return p.returncode, p.stdout


def parse_zlist(out: str) -> list[int] | None:
    """Parse the single `= [..] : list Z` answer of an Eval."""
    flat = " ".join(out.split())
    m = re.search(r"=\s*(\[.*?\]|nil)\s*:\s*list Z", flat)
    if not m:
        return None
    body = m.group(1)
    if body == "nil" or body == "[]":
        return []
    nums = re.findall(r"-?\d+", body)
    return [int(n) for n in nums]


def run_cases(tag: str, imports: str, model: str, cases: list[tuple[str, str]], shard: int = 400,
              timeout: int = 900, keep: bool = False, in_type: str | None = None):
    """Evaluate `model input` against the implementation's observation for every case.
    cases: list of (input term, expected val literal).  Returns (bad case indices, errors)."""
    shards = [cases[i:i + shard] for i in range(0, len(cases), shard)]

    def one(k):
        body = ";\n ".join(f"({i}, {o})" for i, o in shards[k])
        text = (HEADER + imports + "\n" +
                (f"Definition cases : list (({in_type}) * val) := [\n {body}\n].\n" if in_type else
                 f"Definition cases := [\n {body}\n].\n") +
                f"Eval vm_compute in (bad_indices ({model}) cases).\n")
        rc, out = coqc_text(f"{tag}_{k}", text, timeout)
        if rc != 0:
            return k, None, out
        return k, parse_zlist(out), out

    bad, errors = [], []
    with ThreadPoolExecutor(max_workers=4) as ex:
        for k, lst, out in ex.map(one, range(len(shards))):
            if lst is None:
                errors.append(f"shard {k}: " + error_excerpt(out, 12))
            else:
                bad += [k * shard + i for i in lst]
    return bad, errors


def eval_terms(tag: str, imports: str, exprs: list[str], timeout: int = 600) -> str:
    """Print `Eval vm_compute in e` for each expression; returns coqc's raw output (used in replay files)."""
    text = HEADER + imports + "\n" + "\n".join(f"Eval vm_compute in ({e})." for e in exprs) + "\n"
    rc, out = coqc_text(tag, text, timeout)
    return out


def coqchk(props_file: str, timeout: int = 2400):
    """Re-check the compiled property file and everything it depends on with the independent checker.
    Returns (ok, axioms text, seconds)."""
    mod = "TS." + props_file[:-2].replace("/", ".")
    t0 = time.time()
    with _Lock():
        p = subprocess.run(["timeout", str(timeout), "coqchk", "-silent", "-o", "-Q", ".", "TS", mod], cwd=COQ,
                           stdout=subprocess.PIPE, stderr=subprocess.STDOUT, text=True)
    out = p.stdout
    ax = ""
    if "* Axioms:" in out:
        ax = out.split("* Axioms:", 1)[1].split("* Constants/Inductives relying on type-in-type", 1)[0].strip()
    return p.returncode == 0, " ".join(ax.split()), time.time() - t0
