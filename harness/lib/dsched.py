"""A deterministic cooperative scheduler for real threads.

Worker threads run real torchsnapshot code; they call point(label, enabled) at every scheduling point (a store
operation, a storage write, a collective, a thread join).  Exactly one worker runs at a time; when every worker is
parked at a point (or finished) the controller picks one whose point is enabled, using choose(enabled_labels).
One choice sequence = one execution, replayable; exhaustive exploration = DFS over choice sequences (explore())."""
from __future__ import annotations

import threading


class Deadlock(Exception):
    pass


class Aborted(BaseException):
    """Raised inside parked workers when the run is torn down (BaseException: real code must not swallow it)."""


class _W:
    def __init__(self, name, fn):
        self.name, self.fn = name, fn
        self.state = "new"          # new | running | waiting | done
        self.label = None
        self.enabled = None
        self.granted = False
        self.result = None
        self.error = None
        self.thread = None
        self.tags = {}


class DSched:
    def __init__(self, choose=None, max_steps=20000):
        self.cv = threading.Condition()
        self.workers: list[_W] = []
        self.by_ident = {}
        self.choose = choose or (lambda labels: 0)
        self.trace = []             # (worker name, label) in execution order
        self.choices = []           # (chosen index, number enabled)
        self.aborting = False
        self.deadlock = None
        self.max_steps = max_steps
        self.tl = threading.local()

    # ---------------------------------------------------------------- workers
    def spawn(self, name, fn, tags=None, start=True):
        w = _W(name, fn)
        w.tags = dict(tags or {})

        def body():
            self.tl.worker = w
            with self.cv:
                self.by_ident[threading.get_ident()] = w
            try:
                self._park(w, f"start:{name}", None)
                w.result = fn()
            except Aborted:
                pass
            except BaseException as e:  # noqa
                w.error = e
            finally:
                with self.cv:
                    w.state = "done"
                    self.cv.notify_all()
        w.thread = threading.Thread(target=body, name=f"dsched-{name}", daemon=True)
        with self.cv:
            self.workers.append(w)
            w.state = "running"     # until it parks at its start point
        w.thread.start()
        return w

    def current(self) -> _W | None:
        return getattr(self.tl, "worker", None)

    def _park(self, w, label, enabled):
        with self.cv:
            w.state, w.label, w.enabled, w.granted = "waiting", label, enabled, False
            self.cv.notify_all()
            while not w.granted and not self.aborting:
                self.cv.wait()
            if self.aborting and not w.granted:
                w.state = "running"
                raise Aborted()
            w.granted = False
            w.state = "running"

    def point(self, label, enabled=None):
        """Called from a worker thread.  Blocks until the controller schedules this worker (and enabled() holds)."""
        w = self.current()
        if w is None:               # not a managed thread (e.g. an executor thread): no scheduling point
            return
        self._park(w, label, enabled)

    # ---------------------------------------------------------------- controller
    def run(self):
        """Run until every worker is done.  Raises Deadlock if workers are parked with nothing enabled."""
        steps = 0
        with self.cv:
            while True:
                while any(w.state == "running" for w in self.workers):
                    self.cv.wait()
                waiting = [w for w in self.workers if w.state == "waiting"]
                if not waiting:
                    return
                en = [w for w in waiting if w.enabled is None or w.enabled()]
                steps += 1
                if not en or steps > self.max_steps:
                    self.deadlock = [(w.name, w.label) for w in waiting]
                    self.aborting = True
                    self.cv.notify_all()
                    while any(w.state != "done" for w in self.workers):
                        self.cv.wait(0.05)
                    raise Deadlock(f"no enabled worker; parked: {self.deadlock}")
                en.sort(key=lambda w: w.name)
                k = self.choose([(w.name, w.label) for w in en]) % len(en)
                self.choices.append((k, len(en)))
                w = en[k]
                self.trace.append((w.name, w.label))
                w.granted = True
                w.state = "running"
                self.cv.notify_all()

    def abort(self):
        with self.cv:
            self.aborting = True
            self.cv.notify_all()


def explore(make_run, max_runs=100000):
    """Stateless DFS over choice sequences.  make_run(choose) must build a fresh world, run it with a DSched using
    `choose`, and return (sched, observation).  Yields (choice list, observation) for every distinct schedule."""
    stack = [[]]                    # prefixes still to run
    runs = 0
    while stack and runs < max_runs:
        prefix = stack.pop()
        pos = [0]

        def choose(labels, prefix=prefix, pos=pos):
            i = pos[0]
            pos[0] += 1
            return prefix[i] if i < len(prefix) else 0
        sched, obs = make_run(choose)
        runs += 1
        taken = [c for c, n in sched.choices]
        # siblings: at every position beyond the prefix, the alternatives not taken
        for i in range(len(prefix), len(sched.choices)):
            c, n = sched.choices[i]
            for alt in range(c + 1, n):
                stack.append(taken[:i] + [alt])
        yield taken, obs
