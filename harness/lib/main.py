"""./check driver: translate -> prove -> correspond -> decide -> evidence.  See DESIGN.md section 2.1 / 4.1."""
from __future__ import annotations

import argparse
import glob
import importlib
import json
import os
import re
import subprocess
import sys
import time
import traceback

from . import coqrun
from .core import Ctx, Obligation, Result

VERIF = "/verif"
FORBIDDEN = re.compile(
    r"\b(Admitted|admit|Axiom|Axioms|Parameter|Parameters|Conjecture|Conjectures|Abort All|Admit Obligations|"
    r"Unset Guard Checking|Unset Positivity Checking|Unset Universe Checking|bypass_check|native_compute|Hypothesis|Variable|Variables|Hypotheses)\b")


def log(*a):
    print(*a, flush=True)


# ---------------------------------------------------------------------------
def scan_forbidden() -> list[str]:
    """No Admitted/Axiom/...; `Variable`/`Hypothesis` are allowed only inside a Section."""
    bad = []
    for d in ("model", "proofs", "props"):
        for f in sorted(glob.glob(f"{VERIF}/coq/{d}/*.v")):
            text = open(f).read()
            text = re.sub(r"\(\*.*?\*\)", lambda m: " " * len(m.group(0)), text, flags=re.S)
            depth = 0
            for ln, line in enumerate(text.splitlines(), 1):
                if re.match(r"\s*Section\s+\w+", line):
                    depth += 1
                if re.match(r"\s*End\s+\w+", line) and depth > 0:
                    depth -= 1
                for m in FORBIDDEN.finditer(line):
                    w = m.group(1)
                    if w in ("Variable", "Variables", "Hypothesis", "Hypotheses") and depth > 0:
                        continue
                    bad.append(f"{os.path.relpath(f, VERIF)}:{ln}: {w}")
    return bad


def translators() -> list[str]:
    return sorted(os.path.basename(f)[:-3] for f in glob.glob(f"{VERIF}/translator/gen_*.py"))


def run_translator(name: str) -> Obligation:
    try:
        mod = importlib.import_module(f"translator.{name}")
        importlib.reload(mod)
        for gen_name, text in mod.generate().items():
            coqrun.write_gen(gen_name, text)
        return Obligation(f"translate:{name}", True)
    except Exception as e:  # fail closed: unknown syntax => obligation broken
        where = getattr(e, "where", "")
        # leave a gen file that cannot compile so that nothing stale is proved against
        for gen_name in getattr(importlib.import_module(f"translator.{name}"), "OUTPUTS", []):
            coqrun.write_gen(gen_name, f"(* translator {name} failed: {str(e)[:200]} *)\nTranslator_failed.\n")
        return Obligation(f"translate:{name}:{where}", False, f"{type(e).__name__}: {e}")


def gens_needed(mod) -> list[str]:
    """translators to run for a property: those it declares (GEN) plus every translator one of whose outputs is imported,
    directly or transitively, by the property's theorem file (so that no generated file a theorem depends on is stale)"""
    need = list(getattr(mod, "GEN", []))
    seen, todo, gens = set(), [mod.PROPS_FILE], set()
    while todo:
        f = todo.pop()
        if f in seen:
            continue
        seen.add(f)
        try:
            text = open(os.path.join(coqrun.COQ, f)).read()
        except FileNotFoundError:
            continue
        for m in re.finditer(r"From\s+TS\s+Require\s+(?:Import|Export)\s+(.*?)\.(?:\s|$)", text, re.S):
            for name in m.group(1).split():
                d, _, base = name.partition(".")
                if d == "gen":
                    gens.add(base)
                elif d in ("model", "proofs", "props"):
                    todo.append(f"{d}/{base}.v")
    for t in translators():
        outs = getattr(importlib.import_module(f"translator.{t}"), "OUTPUTS", [])
        if t not in need and gens & set(outs):
            need.append(t)
    return need


def setup() -> int:
    t0 = time.time()
    bad = scan_forbidden()
    if bad:
        log("forbidden constructs in the Coq development:\n  " + "\n  ".join(bad))
        return 1
    with coqrun.locked():
        for t in translators():
            o = run_translator(t)
            log(f"translate {t}: {'ok' if o.ok else 'FAILED ' + o.detail}")
            if not o.ok:
                return 1
        ok, out, dt = coqrun.make(None, timeout=3000)
        if not ok:
            # a file that no claimed property depends on may be work in progress: build the claimed targets
            log(coqrun.error_excerpt(out))
            log("setup: full build failed; building the targets of the claimed properties")
            claimed = [c["property_id"] for c in json.load(open(f"{VERIF}/MANIFEST.json"))["checks"]]
            ok, out, dt = coqrun.make([f"props/{c}.vo" for c in claimed], timeout=3000)
    if not ok:
        log(out[-6000:])
        log("setup: Coq build FAILED")
        return 1
    log(f"setup: Coq build ok in {dt:.0f}s ({time.time() - t0:.0f}s total)")
    return 0


# ---------------------------------------------------------------------------
def load_known(prop: str):
    try:
        data = json.load(open(f"{VERIF}/known_findings.json"))
    except FileNotFoundError:
        return []
    return [f for f in data.get("findings", []) if f.get("property") == prop]


def jsonsafe(x):
    """anything -> JSON-representable (dict keys become strings, bytes/sets/objects their repr)"""
    if isinstance(x, dict):
        return {(k if isinstance(k, str) else repr(k)): jsonsafe(v) for k, v in x.items()}
    if isinstance(x, (list, tuple)):
        return [jsonsafe(v) for v in x]
    if isinstance(x, (str, int, bool)) or x is None:
        return x
    if isinstance(x, float):
        return x if x == x and x not in (float("inf"), float("-inf")) else repr(x)
    return repr(x)


def write_replay(prop, tier, seed, payload) -> str:
    os.makedirs(f"{VERIF}/out", exist_ok=True)
    path = f"{VERIF}/out/replay-{prop}-{tier}-{seed}.json"
    with open(path, "w") as f:
        json.dump(jsonsafe(payload), f, indent=1)
    return path


def jsonable(x):
    try:
        json.dumps(x)
        return x
    except (TypeError, ValueError):
        return jsonsafe(x)


def decide(prop: str, tier: str, seed: int) -> int:
    t0 = time.time()
    mod = importlib.import_module(f"props.{prop}")
    ctx = Ctx(prop, tier, seed)
    obligs: list[Obligation] = []
    theorem_info = []

    props_file = mod.PROPS_FILE
    theorems = coqrun.theorems_of(props_file)
    target = props_file[:-2] + ".vo"
    axioms = {}
    with coqrun.locked():
        # 1. translate -------------------------------------------------------
        for g in gens_needed(mod):
            obligs.append(run_translator(g))
        # 2. prove -----------------------------------------------------------
        ok, out, dt = coqrun.make([target])
        if ok:
            pa_ok, axioms, raw = coqrun.print_assumptions(props_file)
            ok = pa_ok
            if not pa_ok:
                out = raw
    allowed = set(getattr(mod, "ALLOWED_AXIOMS", []))
    for th in theorems:
        if not ok:
            obligs.append(Obligation(f"theorem:{th}", False,
                                     f"build of {target} failed at {coqrun.failing_file(out)}\n{coqrun.error_excerpt(out)}"))
            theorem_info.append({"theorem": th, "checked": False})
        else:
            ax = axioms.get(th)
            if ax is None:
                obligs.append(Obligation(f"theorem:{th}", False, "no Print Assumptions output for this theorem"))
                theorem_info.append({"theorem": th, "checked": False})
            else:
                extra = [a for a in ax if a not in allowed]
                obligs.append(Obligation(f"theorem:{th}", not extra,
                                         "" if not extra else f"depends on undeclared axioms {extra}"))
                theorem_info.append({"theorem": th, "checked": True,
                                     "assumptions": ax or "Closed under the global context"})
    log(f"[{prop}] coq: {sum(1 for o in obligs if o.ok)}/{len(obligs)} obligations so far ({dt:.0f}s make)")
    coqchk_info = None
    if tier == "thorough" and ok:
        ck_ok, ck_axioms, ck_dt = coqrun.coqchk(props_file)
        coqchk_info = {"ok": ck_ok, "axioms": ck_axioms or "<none>", "seconds": round(ck_dt)}
        obligs.append(Obligation(f"coqchk:{props_file}", ck_ok, "" if ck_ok else "coqchk rejected the compiled development"))
        log(f"[{prop}] coqchk -o: {'ok' if ck_ok else 'FAILED'}, axioms: {ck_axioms or '<none>'} ({ck_dt:.0f}s)")

    # 3. correspond ------------------------------------------------------------
    res = Result()
    try:
        res = mod.correspond(ctx)
    except Exception as e:
        obligs.append(Obligation("correspondence:harness-exception", False,
                                 f"{type(e).__name__}: {e}\n{traceback.format_exc()[-3000:]}"))
    obligs += res.obligations
    mism_by_where = {}
    for m in res.mismatches:
        mism_by_where.setdefault(m.where, []).append(m)
    for where, ms in mism_by_where.items():
        obligs.append(Obligation(f"correspondence:{where}", False,
                                 f"{len(ms)} disagreement(s); first: case={jsonable(ms[0].case)} impl={jsonable(ms[0].impl)} model={jsonable(ms[0].model)}"))
    for where in getattr(mod, "CORRESPONDENCES", []):
        if where not in mism_by_where:
            obligs.append(Obligation(f"correspondence:{where}", True))

    # 4. decide ----------------------------------------------------------------
    known = load_known(prop)
    known_sigs = {k["signature"]: k for k in known if k.get("status", "known") == "known"}
    seen_known = {}
    new = []
    for f in res.failures:
        if f.signature in known_sigs:
            seen_known.setdefault(f.signature, f)
        else:
            new.append(f)
    n_known = sum(1 for f in res.failures if f.signature in known_sigs)
    for sig, f in seen_known.items():
        log(f"KNOWN-FINDING: property={prop} {known_sigs[sig]['what']} [{sig}]")

    broken = [o for o in obligs if not o.ok]
    rc = 0
    violations = 0
    replay_path = None
    if not new and broken:
        log(f"[{prop}] {len(broken)} obligation(s) no longer check: " + ", ".join(o.name for o in broken[:8]))
        log(f"[{prop}] widening the search for a failing input")
        try:
            searcher = getattr(mod, "search", None)
            wctx = Ctx(prop, tier, seed + 1, widen=3)
            res2 = searcher(wctx, broken) if searcher else mod.correspond(wctx)
            wctx.cleanup()
            for f in res2.failures:
                if f.signature not in known_sigs:
                    new.append(f)
            res.evaluations += res2.evaluations
            res.nontrivial |= res2.nontrivial
        except Exception as e:
            log(f"[{prop}] widened search raised {type(e).__name__}: {e}")
    if new:
        violations = len(new)
        new.sort(key=lambda f: len(json.dumps(jsonsafe(f.replay))))
        f0 = new[0]
        replay_path = write_replay(prop, tier, seed, {
            "property": prop, "kind": "failing-input", "signature": f0.signature, "what": f0.what,
            "replay": f0.replay, "seed": seed, "tier": tier,
            "other_failures": [{"signature": f.signature, "what": f.what} for f in new[1:20]],
            "broken_obligations": [{"name": o.name, "detail": o.detail} for o in broken],
        })
        log(f"[{prop}] {f0.what}")
        log(f"VIOLATION property={prop} replay={replay_path}")
        rc = 1
    elif broken:
        violations = 1
        replay_path = write_replay(prop, tier, seed, {
            "property": prop, "kind": "broken-obligation",
            "broken_obligations": [{"name": o.name, "detail": o.detail} for o in broken],
            "mismatches": [{"where": m.where, "case": jsonable(m.case), "impl": jsonable(m.impl), "model": jsonable(m.model)}
                           for m in res.mismatches[:20]],
            "seed": seed, "tier": tier,
        })
        for o in broken[:5]:
            log(f"[{prop}] broken: {o.name}: {o.detail[:600]}")
        log(f"VIOLATION property={prop} replay={replay_path} no-failing-input-found")
        rc = 1

    # 5. evidence ---------------------------------------------------------------
    wall = time.time() - t0
    cov = {
        "obligations": len(obligs),
        "discharged": sum(1 for o in obligs if o.ok),
        "checker_cmd": f"cd /verif/coq && make -f Makefile.coq {target} && coqc -Q . TS {props_file}   (driven by ./check {prop} --tier {tier})",
        "trusted_base": getattr(mod, "TRUSTED", []),
        "theorems": theorem_info,
        "coqchk": coqchk_info,
        "obligation_list": [{"name": o.name, "ok": o.ok} for o in obligs],
        "evaluations": res.evaluations,
        "distinct_nontrivial": len(res.nontrivial),
        "rule": res.rule or getattr(mod, "RULE", ""),
        "samples": [jsonable(s) for s in res.samples] or [{"obligation": o.name} for o in obligs[:4]],
        "traces_validated_against_impl": res.traces_validated,
        "input_distribution": res.dist,
        "exhaustive": res.exhaustive,
        "correspondence_mismatches": len(res.mismatches),
        "known_findings_reproduced": sorted(seen_known),
        "notes": res.notes,
    }
    ev = {"property_id": prop, "tier": tier, "seed": seed, "level": "proof", "coverage": cov,
          "assumptions": getattr(mod, "ASSUMPTIONS", []), "wall_s": round(wall, 2), "violations": violations}
    os.makedirs(f"{VERIF}/evidence", exist_ok=True)
    ev_path = f"{VERIF}/evidence/{prop}.json"
    if os.environ.get("VERIF_REPO"):
        # a developer run against a scratch copy (mutation self-test): never overwrite the evidence of /repo
        os.makedirs(f"{VERIF}/out", exist_ok=True)
        ev_path = f"{VERIF}/out/evidence-scratch-{prop}.json"
    with open(ev_path, "w") as f:
        json.dump(jsonsafe(ev), f, indent=1)
    ctx.cleanup()
    log(f"[{prop}] {tier}: obligations {cov['discharged']}/{cov['obligations']}, evaluations {res.evaluations} "
        f"({len(res.nontrivial)} distinct non-trivial), mismatches {len(res.mismatches)}, "
        f"failures {n_known + len(new)} (known {n_known}), {wall:.0f}s -> exit {rc}")
    return rc


def replay(prop: str, path: str) -> int:
    mod = importlib.import_module(f"props.{prop}")
    data = json.load(open(path))
    if data.get("kind") != "failing-input" or not hasattr(mod, "replay"):
        log(json.dumps(data, indent=1)[:4000])
        return 0
    ctx = Ctx(prop, "quick", data.get("seed", 0))
    f = mod.replay(ctx, data["replay"])
    ctx.cleanup()
    if f is not None:
        log(f"[{prop}] replay still fails: {f.what}")
        log(f"VIOLATION property={prop} replay={path}")
        return 1
    log(f"[{prop}] replay passes")
    return 0


def _quiet_unraisable():
    """An injected storage failure abandons the coroutines of the sibling writes; when the garbage collector finalises them
    outside any event loop Python reports 'Exception ignored in: <coroutine ...> RuntimeError: no running event loop' on
    stderr.  That is noise from the fault injection, not a result: drop exactly these reports, keep every other one."""
    import types
    default = sys.unraisablehook

    def hook(u):
        if isinstance(u.object, (types.CoroutineType, types.AsyncGeneratorType)) or (
                isinstance(u.exc_value, RuntimeError) and "no running event loop" in str(u.exc_value)):
            return
        default(u)
    sys.unraisablehook = hook


def main() -> int:
    ap = argparse.ArgumentParser()
    ap.add_argument("prop", nargs="?")
    ap.add_argument("--setup", action="store_true")
    ap.add_argument("--tier", default=os.environ.get("VERIF_TIER", "quick"))
    ap.add_argument("--seed", type=int, default=int(os.environ.get("VERIF_SEED", "0") or 0))
    ap.add_argument("--replay")
    a = ap.parse_args()
    os.chdir(VERIF)
    _quiet_unraisable()
    import logging
    logging.getLogger("asyncio").setLevel(logging.CRITICAL)     # 'Task was destroyed but it is pending!' after injected faults
    if a.setup:
        return setup()
    if not a.prop:
        ap.error("property id required")
    if a.tier not in ("quick", "thorough"):
        a.tier = "quick"
    if a.replay:
        return replay(a.prop, a.replay)
    if os.environ.get("VERIF_REPO"):
        # developer run against a scratch source tree: build in a private copy of the Coq development so that the
        # generated files of this run never meet those of a concurrent run against /repo
        import atexit, shutil, tempfile
        scratch = tempfile.mkdtemp(prefix="tsverif-coq-")
        atexit.register(shutil.rmtree, scratch, True)
        shutil.copytree(coqrun.COQ, os.path.join(scratch, "coq"), ignore=shutil.ignore_patterns("cases", ".lock"))
        coqrun.COQ = os.path.join(scratch, "coq")
        coqrun.LOCK = os.path.join(coqrun.COQ, ".lock")
    try:
        return decide(a.prop, a.tier, a.seed)
    except Exception:
        traceback.print_exc()
        log(f"[{a.prop}] internal error in the check driver")
        return 2


if __name__ == "__main__":
    sys.exit(main())
