"""Common types for the per-property checks (harness/props/Cxx.py)."""
from __future__ import annotations

import atexit
import hashlib
import json
import os
import random
import shutil
import tempfile
from dataclasses import dataclass, field

# The source tree the checks run against. Always /repo for the registered commands; VERIF_REPO lets a
# developer point the same machinery at a scratch copy (mutation self-tests) without touching /repo.
REPO = os.environ.get("VERIF_REPO", "/repo")


@dataclass
class Failure:
    """The property itself evaluated on a REAL execution said 'violated'."""
    signature: str            # specific: call site + input class (matched against known_findings.json)
    what: str                 # one line, human readable
    replay: dict              # json-able: everything needed to re-run (inputs, schedule, seed ...)


@dataclass
class Mismatch:
    """Model and implementation disagree on an observation."""
    where: str                # which correspondence
    case: object              # json-able input
    impl: object = None
    model: object = None


@dataclass
class Obligation:
    name: str
    ok: bool
    detail: str = ""


@dataclass
class Result:
    evaluations: int = 0
    nontrivial: set = field(default_factory=set)     # hashes of distinct non-trivial cases
    samples: list = field(default_factory=list)
    failures: list = field(default_factory=list)     # list[Failure]
    mismatches: list = field(default_factory=list)   # list[Mismatch]
    obligations: list = field(default_factory=list)  # extra per-run obligations (reflective checks, model errors)
    dist: dict = field(default_factory=dict)          # histograms of the input distribution
    traces_validated: int = 0
    rule: str = ""
    exhaustive: bool = False
    notes: list = field(default_factory=list)

    def count(self, key: str, sub) -> None:
        d = self.dist.setdefault(key, {})
        d[str(sub)] = d.get(str(sub), 0) + 1

    def case(self, obj, nontrivial: bool = True) -> None:
        self.evaluations += 1
        if nontrivial:
            self.nontrivial.add(hashlib.sha1(repr(obj).encode()).hexdigest()[:16])
        if len(self.samples) < 6:
            try:
                json.dumps(obj)
                self.samples.append(obj)
            except (TypeError, ValueError):
                self.samples.append(repr(obj)[:400])

    def merge(self, other: "Result") -> None:
        self.evaluations += other.evaluations
        self.nontrivial |= other.nontrivial
        self.samples += other.samples[: max(0, 8 - len(self.samples))]
        self.failures += other.failures
        self.mismatches += other.mismatches
        self.obligations += other.obligations
        self.traces_validated += other.traces_validated
        for k, d in other.dist.items():
            t = self.dist.setdefault(k, {})
            for kk, v in d.items():
                t[kk] = t.get(kk, 0) + v
        self.notes += other.notes


class Ctx:
    def __init__(self, prop: str, tier: str, seed: int, widen: int = 1):
        self.prop = prop
        self.tier = tier
        self.seed = seed
        self.widen = widen             # >1 when the driver re-runs the search after a broken obligation
        self.rng = random.Random(f"{prop}:{seed}:{widen}")
        self._root = None

    @property
    def thorough(self) -> bool:
        return self.tier == "thorough"

    def n(self, quick: int, thorough: int) -> int:
        """Case budget for this tier (multiplied when the driver widens the search)."""
        return (thorough if self.thorough else quick) * self.widen

    def scratch(self, name: str = "") -> str:
        """A fresh scratch directory outside /repo and /verif; removed at exit."""
        if self._root is None:
            self._root = tempfile.mkdtemp(prefix=f"tsverif-{self.prop}-")
            atexit.register(shutil.rmtree, self._root, True)
        d = tempfile.mkdtemp(prefix=name + "-", dir=self._root)
        return d

    def cleanup(self) -> None:
        if self._root is not None:
            shutil.rmtree(self._root, ignore_errors=True)
            self._root = None
