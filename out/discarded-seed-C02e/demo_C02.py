#!/usr/bin/env python3
"""
Demo for property C02 (a snapshot that take() returned from is committed and
readable through a fresh reference from that rank; the committed metadata
only references payloads that were really written).

Scenario (unusual but documented use): a 2-rank Snapshot.take() in which the
ranks pass *different* ``path`` arguments (e.g. each rank derived it from its
own host-local temp dir). The documentation of ``path`` says: "if ``path`` is
inconsistent across participating ranks, the value specified by rank 0 will
be used".

The two ranks are two threads of this process; collectives go through a small
in-memory process group (PGWrapper methods patched to dispatch on it).
"""
import os
import pickle
import shutil
import sys
import tempfile
import threading
import traceback
from unittest.mock import patch

import torch

import torchsnapshot
from torchsnapshot import Snapshot, StateDict
from torchsnapshot.pg_wrapper import PGWrapper

WORLD_SIZE = 2
TIMEOUT = 600  # the machine may be heavily loaded


class World:
    def __init__(self, n):
        self.n = n
        self.bar = threading.Barrier(n, timeout=TIMEOUT)
        self.slots = [None] * n


class FakePG:
    def __init__(self, world, rank):
        self.world = world
        self.rank = rank


def _cp(obj):
    return pickle.loads(pickle.dumps(obj))


def _get_rank(self):
    return self.pg.rank


def _get_world_size(self):
    return self.pg.world.n


def _barrier(self):
    self.pg.world.bar.wait()


def _broadcast_object_list(self, obj_list, src=0):
    w, r = self.pg.world, self.pg.rank
    if r == src:
        w.slots[src] = _cp(list(obj_list))
    w.bar.wait()
    if r != src:
        obj_list[:] = _cp(w.slots[src])
    w.bar.wait()


def _all_gather_object(self, obj_list, obj):
    w, r = self.pg.world, self.pg.rank
    w.slots[r] = _cp(obj)
    w.bar.wait()
    obj_list[:] = _cp(list(w.slots))
    w.bar.wait()


def _scatter_object_list(self, output_list, input_list, src=0):
    w, r = self.pg.world, self.pg.rank
    if r == src:
        w.slots[src] = _cp(list(input_list))
    w.bar.wait()
    output_list[0] = _cp(w.slots[src][r])
    w.bar.wait()


def run_ranks(fn):
    """Run fn(rank) on WORLD_SIZE threads; return (results, errors)."""
    results = [None] * WORLD_SIZE
    errors = [None] * WORLD_SIZE

    def target(rank):
        try:
            results[rank] = fn(rank)
        except BaseException:
            errors[rank] = traceback.format_exc()

    threads = [threading.Thread(target=target, args=(r,)) for r in range(WORLD_SIZE)]
    for t in threads:
        t.start()
    for t in threads:
        t.join()
    return results, errors


def main():
    base = tempfile.mkdtemp(prefix="demo_C02_")
    problems = []
    try:
        # every rank derives the path on its own; rank 0's must win
        paths = [os.path.join(base, f"host{r}", "ckpt") for r in range(WORLD_SIZE)]

        world = World(WORLD_SIZE)

        def saved_state(rank):
            return StateDict(
                w=torch.arange(16, dtype=torch.float32) + 100 * (rank + 1),
                step=7 + rank,
            )

        def do_take(rank):
            snap = Snapshot.take(
                path=paths[rank],
                app_state={"s": saved_state(rank)},
                pg=FakePG(world, rank),
            )
            return snap.path

        returned, errs = run_ranks(do_take)
        for r, e in enumerate(errs):
            if e is not None:
                problems.append(f"take() raised on rank {r}:\n{e}")

        if not problems:
            # take() returned normally on every rank: the snapshot must be
            # committed and readable through a fresh reference from each rank.
            world2 = World(WORLD_SIZE)

            def do_restore(rank):
                dst = StateDict(w=torch.zeros(16), step=-1)
                fresh = Snapshot(path=returned[rank], pg=FakePG(world2, rank))
                fresh.metadata  # raises if no readable metadata
                fresh.restore(app_state={"s": dst})
                exp = saved_state(rank)
                if not torch.equal(dst["w"], exp["w"]) or dst["step"] != exp["step"]:
                    raise AssertionError(f"rank {rank}: restored state differs")
                return True

            # first only look at the metadata (no collectives involved), so a
            # missing commit can not leave the other rank waiting in a barrier
            for r in range(WORLD_SIZE):
                try:
                    md = Snapshot(path=returned[r]).metadata
                except Exception as e:
                    problems.append(
                        f"take() returned normally on rank {r} with snapshot path "
                        f"{returned[r]!r}, but a fresh reference from that rank can "
                        f"not open it: {type(e).__name__}: {str(e).splitlines()[0]}"
                    )
                    continue
                # every payload the committed manifest references must exist
                for lpath, entry in md.manifest.items():
                    locs = []
                    if hasattr(entry, "location"):
                        locs.append(entry.location)
                    for sub in getattr(entry, "chunks", []) or []:
                        locs.append(sub.tensor.location)
                    for loc in locs:
                        if not os.path.isfile(os.path.join(returned[r], loc)):
                            problems.append(
                                f"committed metadata at {returned[r]!r} references "
                                f"payload {loc!r} (entry {lpath!r}) that was never "
                                f"written there"
                            )
            if not problems:
                _, errs = run_ranks(do_restore)
                for r, e in enumerate(errs):
                    if e is not None:
                        problems.append(f"restore failed on rank {r}:\n{e}")
            if not problems and any(p != paths[0] for p in returned):
                problems.append(f"ranks did not agree on rank 0's path: {returned}")
    finally:
        shutil.rmtree(base, ignore_errors=True)

    if problems:
        print("FAIL: C02 violated (ranks passed inconsistent paths to take()):")
        for p in dict.fromkeys(problems):
            print("  - " + p)
        return 1
    print("PASS")
    return 0


if __name__ == "__main__":
    with patch.object(PGWrapper, "get_rank", _get_rank), patch.object(
        PGWrapper, "get_world_size", _get_world_size
    ), patch.object(PGWrapper, "barrier", _barrier), patch.object(
        PGWrapper, "broadcast_object_list", _broadcast_object_list
    ), patch.object(
        PGWrapper, "all_gather_object", _all_gather_object
    ), patch.object(
        PGWrapper, "scatter_object_list", _scatter_object_list
    ):
        # Snapshot(path) without pg (used for the metadata-only check) needs
        # the single-process behaviour; it never calls the patched collectives.
        rc = main()
    sys.exit(rc)
