import warnings, threading, tempfile, shutil, os, pickle, time, asyncio, sys; warnings.filterwarnings("ignore")
import torch, torchsnapshot
from torchsnapshot import Snapshot, StateDict
from torchsnapshot.pg_wrapper import PGWrapper
import torchsnapshot.snapshot as snapmod, torchsnapshot.storage_plugin as spmod
from torchsnapshot.storage_plugins.fs import FSStoragePlugin
class World:
    def __init__(s,W): s.W=W; s.cv=threading.Condition(); s.slots={}; s.gen=0; s.log=[[] for _ in range(W)]; s.result=None
    def rendezvous(s,rank,kind,payload):
        s.log[rank].append(kind)
        with s.cv:
            gen=s.gen; s.slots[rank]=(kind,payload)
            if len(s.slots)==s.W:
                kinds={k for k,_ in s.slots.values()}
                s.result=("MISMATCH",dict(s.slots)) if len(kinds)>1 else ("OK",{r:pickle.loads(pickle.dumps(p)) for r,(k,p) in s.slots.items()})
                s.slots={}; s.gen+=1; s.cv.notify_all()
            else:
                if not s.cv.wait_for(lambda: s.gen!=gen, timeout=10): raise RuntimeError(f"DEADLOCK rank {rank} at {kind}")
            st,res=s.result
            if st!="OK": raise RuntimeError("collective mismatch %r"%({r:k for r,(k,_) in res.items()}))
            return res
tl=threading.local(); world=None
PGWrapper.get_rank=lambda self: tl.rank
PGWrapper.get_world_size=lambda self: world.W
PGWrapper.barrier=lambda self: world.rendezvous(tl.rank,"barrier",None) and None
def bcast(self,obj_list,src=0):
    res=world.rendezvous(tl.rank,"broadcast",list(obj_list)); obj_list[:]=res[src]
def allgather(self,obj_list,obj):
    res=world.rendezvous(tl.rank,"all_gather",obj)
    for r in range(world.W): obj_list[r]=res[r]
PGWrapper.broadcast_object_list=bcast; PGWrapper.all_gather_object=allgather
class FakeStore:
    def __init__(s): s.d={}; s.cv=threading.Condition()
    def set(s,k,v):
        with s.cv: s.d[k]=v.encode() if isinstance(v,str) else v; s.cv.notify_all()
    def get(s,k):
        with s.cv:
            s.cv.wait_for(lambda: k in s.d); return s.d[k]
    def wait(s,keys,timeout=None):
        with s.cv:
            if not s.cv.wait_for(lambda: all(k in s.d for k in keys), 10): raise RuntimeError("store timeout")
STORE=FakeStore(); snapmod.get_or_create_store=lambda pg_wrapper: STORE
EV=[]; DELAY={}
class SlowFS(FSStoragePlugin):
    async def write(self, write_io):
        r=tl.rank; meta=write_io.path==".snapshot_metadata"
        d=DELAY.get((r,"meta" if meta else "payload"),0)
        if d: await asyncio.sleep(d)
        if DELAY.get((r,"fail_meta")) and meta: raise RuntimeError("injected meta failure")
        await super().write(write_io); EV.append((time.monotonic(),r,"wrote_meta" if meta else "wrote_payload"))
spmod.FSStoragePlugin=SlowFS
def run(W,fn):
    global world; world=World(W); errs=[None]*W
    def t(r):
        tl.rank=r
        try: fn(r)
        except Exception as e: errs[r]=e
    ts=[threading.Thread(target=t,args=(r,)) for r in range(W)]; [x.start() for x in ts]; [x.join() for x in ts]
    return errs
os.environ["TORCHSNAPSHOT_DISABLE_BATCHING"]="1"
print("=== D12 sync take: rank0 metadata write slow; does rank1 return before commit?")
root=tempfile.mkdtemp()+"/snap"; DELAY.clear(); DELAY[(0,"meta")]=0.5; EV.clear()
def take(r):
    tl.rank=r
    Snapshot.take(root,{"m":StateDict({"p":torch.full((3,),float(r))})}); 
    exists=os.path.exists(os.path.join(root,".snapshot_metadata")); EV.append((time.monotonic(),r,"take_returned meta_exists=%s"%exists))
print(run(2,take)); [print("  ",e[1:]) for e in sorted(EV)]
print("=== D12b: rank0 metadata write fails")
root2=tempfile.mkdtemp()+"/snap"; DELAY.clear(); DELAY[(0,"fail_meta")]=1; EV.clear()
def take2(r):
    tl.rank=r; Snapshot.take(root2,{"m":StateDict({"p":torch.full((3,),float(r))})}); EV.append((time.monotonic(),r,"take_returned_OK"))
print(run(2,take2)); [print("  ",e[1:]) for e in sorted(EV)]
print("=== D10 async twice same path; 2nd time rank1 payload slow")
root3=tempfile.mkdtemp()+"/snap"
for it,(d1) in enumerate([0.0,0.6]):
    DELAY.clear(); DELAY[(1,"payload")]=d1; EV.clear(); shutil.rmtree(root3,ignore_errors=True)
    def atake(r):
        tl.rank=r; p=Snapshot.async_take(root3,{"m":StateDict({"p":torch.full((3,),float(r))})}); 
        th=p.thread; orig=tl.rank
        p.wait(); EV.append((time.monotonic(),r,"wait_returned"))
    # background thread needs tl.rank: patch Thread start
    import threading as T
    _orig_start=T.Thread.start
    def start(self):
        r=getattr(tl,"rank",None); run0=self.run
        def run1():
            if r is not None: tl.rank=r
            run0()
        self.run=run1; _orig_start(self)
    T.Thread.start=start
    errs=run(2,atake); T.Thread.start=_orig_start
    print(" iter",it,"errs",errs); [print("    ",e[1:]) for e in sorted(EV)]
for d in (root,root2,root3): shutil.rmtree(os.path.dirname(d),ignore_errors=True)
