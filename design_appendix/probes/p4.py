# probe: deterministic schedule control of the real write/read pipelines with gated fakes
import warnings, asyncio, io, os, itertools; warnings.filterwarnings("ignore")
from torchsnapshot.scheduler import execute_write_reqs, execute_read_reqs
from torchsnapshot.io_types import *
class Ctl:
    def __init__(s): s.gates={}; s.log=[]; s.seq=0
    async def gate(s,kind,name):
        fut=asyncio.get_running_loop().create_future(); s.gates[(kind,name)]=fut; s.log.append(("begin",kind,name)); 
        r=await fut; s.log.append(("end",kind,name)); 
        if r=="fail": raise RuntimeError("injected")
    async def quiesce(s):
        stable=0; n=len(s.log)
        while stable<5:
            await asyncio.sleep(0); 
            if len(s.log)==n: stable+=1
            else: stable=0; n=len(s.log)
class St(BufferStager):
    def __init__(s,c,name,cost,bsz): s.c=c;s.name=name;s.cost=cost;s.bsz=bsz
    async def stage_buffer(s,executor=None): await s.c.gate("stage",s.name); return b"x"*s.bsz
    def get_staging_cost_bytes(s): return s.cost
class Sto(StoragePlugin):
    def __init__(s,c): s.c=c
    async def write(s,write_io): await s.c.gate("write",write_io.path)
    async def read(s,read_io): await s.c.gate("read",read_io.path); read_io.buf=io.BytesIO(b"y"*4)
    async def delete(s,p): pass
    async def delete_dir(s,p): pass
    async def close(s): pass
async def run_write(reqs,B,schedule):
    c=Ctl(); wrs=[WriteReq(path=n,buffer_stager=St(c,n,cost,bsz)) for n,cost,bsz in reqs]
    async def main():
        p=await execute_write_reqs(wrs,Sto(c),B,0); await p.complete(); return p.memory_budget_bytes
    t=asyncio.create_task(main()); trace=[]
    for pick in schedule:
        await c.quiesce()
        open_=sorted(k for k,f in c.gates.items() if not f.done())
        if not open_: break
        k=open_[pick%len(open_)]; trace.append((k,tuple(open_))); c.gates[k].set_result("ok")
    await c.quiesce()
    while not t.done():
        open_=sorted(k for k,f in c.gates.items() if not f.done())
        if not open_: await asyncio.sleep(0); continue
        trace.append((open_[0],tuple(open_))); c.gates[open_[0]].set_result("ok"); await c.quiesce()
    return t.result(),trace
os.environ["TORCHSNAPSHOT_MAX_PER_RANK_IO_CONCURRENCY_OVERRIDE"]="2"
import logging; logging.disable(logging.CRITICAL)
res=[asyncio.new_event_loop().run_until_complete(run_write([("a",6,6),("b",5,5),("c",12,12),("d",0,0)],10,[1,0,2,0,1,0,0,0])) for _ in range(2)]
print("deterministic:",res[0]==res[1]); print("final budget",res[0][0])
for k,o in res[0][1]: print(" complete",k,"  in-flight:",o)
