import warnings; warnings.filterwarnings("ignore")
from collections import OrderedDict
from torchsnapshot.flatten import flatten, inflate
from torchsnapshot.manifest import *
def rt(obj, via_yaml=True):
    m,f=flatten(obj,"p")
    if via_yaml:
        md=SnapshotMetadata(version="0",world_size=1,manifest={ "0/"+k:v for k,v in m.items()})
        md2=SnapshotMetadata.from_yaml(md.to_yaml())
        m={k[2:]:v for k,v in md2.manifest.items()}
    return inflate(m,f,"p")
cases=[{1:'a','01':'b'},{'01':'b',1:'a'},{'+1':'x',1:'y'},{1:'y','+1':'x'},{'²':1},{'١':1},{1:2,'١':3},{True:1},{True:1,'1':2},{'':1},{'a/b':1,'%2F':2,'%':3},{'a':{'':{'b':1}}},{-1:'n','-1x':2},{'-0':1,0:2},{0:2,'-0':1}, OrderedDict([(2,'a'),(1,'b')]), {'x':[[],{}, [1,[2]]]}, {10**30: 1}]
for c in cases:
    for via in (False,True):
        try:
            r=rt(c,via); ok = (r==c and type(r)==type(c) and list(r.keys())==list(c.keys()) and [type(k) for k in r]==[type(k) for k in c])
            print(("OK  " if ok else "BAD "),via,repr(c),"->",repr(r))
        except Exception as e: print("EXC ",via,repr(c),type(e).__name__,str(e)[:100])
