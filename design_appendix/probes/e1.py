import asyncio, torch, warnings, sys, os
warnings.filterwarnings("ignore")
from torchsnapshot.io_preparers.tensor import TensorIOPreparer, TensorBufferStager
from torchsnapshot.serialization import *
import torchsnapshot.serialization as S

def run(c): 
    loop=asyncio.new_event_loop(); r=loop.run_until_complete(c); loop.close(); return r

print("== E1 async copy")
t=torch.arange(8,dtype=torch.float32)
entry,wrs=TensorIOPreparer.prepare_write("p",t,is_async_snapshot=True)
print("should_copy:",wrs[0].buffer_stager._should_copy_cpu_tensor())
buf=run(wrs[0].buffer_stager.stage_buffer())
before=bytes(buf); t.add_(1); print("buffer changed after mutation:", bytes(buf)!=before)

print("== E2 bfloat16 odd")
for n in [1,2,3,4,5]:
    t=torch.ones(n,dtype=torch.bfloat16)
    try:
        mv=tensor_as_memoryview(t); print(n,"len",len(mv),"expected",2*n)
    except Exception as e: print(n,"ERR",type(e).__name__,e)

print("== E3 zero-size")
for shape in [(0,),(0,3),(2,0),()]:
    for dt in [torch.float32, torch.bfloat16, torch.bool]:
        t=torch.zeros(shape,dtype=dt)
        try:
            mv=tensor_as_memoryview(t); 
            try:
                r=tensor_from_memoryview(mv,dt,list(shape)); print(shape,dt,"ok len",len(mv), r.shape)
            except Exception as e: print(shape,dt,"len",len(mv),"FROM ERR",type(e).__name__,str(e)[:80])
        except Exception as e: print(shape,dt,"AS ERR",type(e).__name__,str(e)[:80])
print("== E3b layouts")
base=torch.arange(24,dtype=torch.float32).reshape(4,6)
for name,t in [("T",base.t()),("strided",base[::2,::3]),("offset",base[1:,2:]),("bcast",torch.tensor([1.,2.]).expand(3,2))]:
    mv=tensor_as_memoryview(t); r=tensor_from_memoryview(mv,t.dtype,list(t.shape)); print(name, torch.equal(r,t), len(mv))
for dt in [torch.complex64, torch.complex128]:
    t=torch.randn(3,dtype=dt); b=torch_save_as_bytes(t); print(dt, torch.equal(torch_load_from_bytes(b),t))
