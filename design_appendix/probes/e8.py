import warnings, os, tempfile, shutil, sys; warnings.filterwarnings("ignore")
import torch
from torchsnapshot import Snapshot, StateDict
from torchsnapshot.knobs import *
root=tempfile.mkdtemp(prefix="ts_")+"/snap"
src={"m":StateDict({"a":torch.arange(8,dtype=torch.float32),"b":torch.arange(8,dtype=torch.float32)+100, "o": {1,2,3}})}
snap=Snapshot.take(root, src)
man=snap.get_manifest()
slab=man["0/m/a"].location; print("slab",slab, man["0/m/a"].byte_range, man["0/m/b"].byte_range)
p=os.path.join(root,slab); data=open(p,"rb").read()
for cut in [0,4,32,40,63]:
    open(p,"wb").write(data[:cut])
    for boff in (False,True):
        with override_is_batching_disabled(boff):
            dst={"m":StateDict({"a":torch.full((8,),-1.0),"b":torch.full((8,),-1.0),"o":None})}
            try:
                Snapshot(root).restore(dst); print("cut",cut,"batching_off",boff,"RETURNED a=",dst["m"]["a"][:3].tolist(),"b=",dst["m"]["b"][-3:].tolist())
            except Exception as e: print("cut",cut,"batching_off",boff,"RAISED",type(e).__name__,str(e)[:80])
            try:
                r=Snapshot(root).read_object("0/m/b"); print("   read_object b RETURNED",r[-2:].tolist())
            except Exception as e: print("   read_object RAISED",type(e).__name__,str(e)[:60])
os.remove(p)
for boff in (False,True):
    with override_is_batching_disabled(boff):
        dst={"m":StateDict({"a":torch.full((8,),-1.0),"b":torch.full((8,),-1.0),"o":None})}
        try:
            Snapshot(root).restore(dst); print("deleted","batching_off",boff,"RETURNED")
        except Exception as e: print("deleted batching_off",boff,"RAISED",type(e).__name__)
shutil.rmtree(os.path.dirname(root))
