From Coq Require Import ZArith List Bool Lia ZifyBool Permutation.
Import ListNotations. Open Scope Z_scope.
(* throw-away feasibility probe: admission pass of the write pipeline *)
Record req := { cost : Z; bsz : Z }.
Record st := { stg : list req; rfi : list req; io : list req; rem : Z }.
Definition inflight (s:st) : Z := Z.of_nat (length (stg s) + length (rfi s) + length (io s)).
Definition acc (s:st) : Z := fold_right (fun r a => cost r + a) 0 (stg s) + fold_right (fun r a => bsz r + a) 0 (rfi s ++ io s).
Definition admit (s:st) (p:req) : bool := (inflight s =? 0) || (cost p <? rem s).
Definition visit (s:st) (p:req) : st * bool :=
  if admit s p then ({| stg := p :: stg s; rfi := rfi s; io := io s; rem := rem s - cost p |}, true) else (s,false).
Fixpoint pass (s:st) (order:list req) : st * list req :=
  match order with [] => (s,[]) | p::ps => let '(s1,b) := visit s p in let '(s2,rest) := pass s1 ps in (s2, if b then rest else p::rest) end.
Definition Inv (B:Z) (s:st) : Prop := rem s = B - acc s /\ (0 <= rem s \/ inflight s <= 1).
Definition nonneg (p:req) := 0 <= cost p /\ 0 <= bsz p.
Lemma visit_inv B s p : 0 < B -> nonneg p -> Inv B s -> Inv B (fst (visit s p)).
Proof.
  intros HB [Hc Hb] HI. unfold visit, admit. destruct (inflight s =? 0) eqn:E0; cbn [orb].
  - unfold Inv, acc, inflight in *. cbn [fst rem stg rfi io fold_right length]. lia.
  - destruct (cost p <? rem s) eqn:E1; cbn [fst]; [|assumption].
    unfold Inv, acc, inflight in *. cbn [fst rem stg rfi io fold_right length]. lia.
Qed.
Lemma pass_inv B order : 0 < B -> Forall nonneg order -> forall s, Inv B s -> Inv B (fst (pass s order)).
Proof.
  intros HB HF. induction HF as [|p ps Hp _ IH]; intros s HI; cbn [pass]; [exact HI|].
  pose proof (visit_inv B s p HB Hp HI) as H1. destruct (visit s p) as [s1 b]. cbn [fst] in H1.
  specialize (IH s1 H1). destruct (pass s1 ps) as [s2 l]. exact IH.
Qed.
Theorem budget_bound B order s : 0 < B -> Forall nonneg order -> Inv B s ->
  let s' := fst (pass s order) in acc s' <= B \/ inflight s' <= 1.
Proof. intros HB HF HI. destruct (pass_inv B order HB HF s HI) as [Hl [Hr|Hr]]; [left; lia | right; exact Hr]. Qed.
Print Assumptions budget_bound.
(* reflective pattern *)
Inductive stmt := Complete | Barrier | WriteMetaRank0 | Ret.
Fixpoint well_ordered (seenC seenB : bool) (p : list stmt) : bool :=
  match p with [] => true | Complete::q => well_ordered true seenB q | Barrier::q => well_ordered seenC (seenC) q
  | WriteMetaRank0::q => seenB && well_ordered seenC seenB q | Ret::q => well_ordered seenC seenB q end.
Definition take_prog := [Complete; Barrier; WriteMetaRank0; Barrier; Ret].
Example take_ok : well_ordered false false take_prog = true. Proof. vm_compute. reflexivity. Qed.
Eval vm_compute in (snd (pass {|stg:=[];rfi:=[];io:=[];rem:=10|} [{|cost:=6;bsz:=6|};{|cost:=5;bsz:=5|};{|cost:=12;bsz:=12|};{|cost:=0;bsz:=0|}])).
