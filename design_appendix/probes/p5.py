import warnings, tempfile, shutil, os; warnings.filterwarnings("ignore")
import torch
from torchsnapshot import Snapshot, StateDict
from torchsnapshot.manifest_ops import get_manifest_for_rank
for keys in [{"a/b":torch.ones(2),"c":1},{"p%":torch.ones(2)},{True:torch.ones(2)},{"plain":torch.ones(2)},{5:torch.ones(2)}]:
    root=tempfile.mkdtemp()+"/s"
    snap=Snapshot.take(root,{"m":StateDict({"d":keys,"r":torch.zeros(1)})},replicated=["m/r"])
    try:
        man,_=get_manifest_for_rank(snap.metadata,rank=1); print(list(keys),"-> new-rank view OK:",sorted(man.keys()), man["m/d"].keys)
    except Exception as e: print(list(keys),"-> new-rank view RAISES",type(e).__name__,e)
    shutil.rmtree(os.path.dirname(root))
