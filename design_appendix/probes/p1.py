# feasibility probe: W ranks as threads with a patched PGWrapper
import warnings, threading, tempfile, shutil, os, copy, pickle; warnings.filterwarnings("ignore")
import torch
import torchsnapshot
from torchsnapshot import Snapshot, StateDict
from torchsnapshot.pg_wrapper import PGWrapper
import torchsnapshot.snapshot as snapmod

class World:
    def __init__(s,W): s.W=W; s.cv=threading.Condition(); s.slots={}; s.gen=0; s.log=[[] for _ in range(W)]; s.result=None
    def rendezvous(s,rank,kind,payload):
        s.log[rank].append(kind)
        with s.cv:
            gen=s.gen; s.slots[rank]=(kind,payload)
            if len(s.slots)==s.W:
                kinds={k for k,_ in s.slots.values()}
                s.result=("MISMATCH",dict(s.slots)) if len(kinds)>1 else ("OK",{r:pickle.loads(pickle.dumps(p)) for r,(k,p) in s.slots.items()})
                s.slots={}; s.gen+=1; s.cv.notify_all()
            else:
                if not s.cv.wait_for(lambda: s.gen!=gen, timeout=20): raise RuntimeError(f"DEADLOCK rank {rank} at {kind}")
            st,res=s.result
            if st!="OK": raise RuntimeError("collective mismatch %r"%({r:k for r,(k,_) in res.items()}))
            return res
tl=threading.local(); world=None
PGWrapper.get_rank=lambda self: tl.rank
PGWrapper.get_world_size=lambda self: world.W
PGWrapper.barrier=lambda self: world.rendezvous(tl.rank,"barrier",None) and None
def bcast(self,obj_list,src=0):
    res=world.rendezvous(tl.rank,"broadcast",list(obj_list)); obj_list[:]=res[src]
def allgather(self,obj_list,obj):
    res=world.rendezvous(tl.rank,"all_gather",obj)
    for r in range(world.W): obj_list[r]=res[r]
PGWrapper.broadcast_object_list=bcast; PGWrapper.all_gather_object=allgather
def run(W,fn):
    global world; world=World(W); errs=[None]*W
    def t(r):
        tl.rank=r
        try: fn(r)
        except Exception as e: errs[r]=e
    ts=[threading.Thread(target=t,args=(r,)) for r in range(W)]; [x.start() for x in ts]; [x.join() for x in ts]
    return errs
root=tempfile.mkdtemp()+"/snap"
def take(r):
    torch.manual_seed(0)
    st={"m":StateDict({"shared":torch.arange(6.),"priv":torch.full((3,),float(r)),"n":r}),}
    if r==1: st["only1"]=StateDict({"z":torch.ones(2)})
    Snapshot.take(root,st,replicated=["m/shared"])
print("take errs",run(3,take)); print("collective log r0",world.log[0]); print("same?",world.log[0]==world.log[1]==world.log[2])
snap=Snapshot(root); print(sorted(snap.get_manifest().keys()))
out={}
def restore(r):
    st={"m":StateDict({"shared":torch.zeros(6),"priv":torch.zeros(3),"n":-1})}
    if r==1: st["only1"]=StateDict({"z":torch.zeros(2)})
    Snapshot(root).restore(st); out[r]=st
errs=run(3,restore); print("restore errs",errs); print("restore logs",world.log)
for r in out: print(r,out[r]["m"]["priv"].tolist(),out[r]["m"]["n"],out[r]["m"]["shared"].tolist())
os.environ["TORCHSNAPSHOT_PER_RANK_MEMORY_BUDGET_BYTES"]="100000"
errs=run(3,restore); print("restore errs w/ override",errs)
shutil.rmtree(os.path.dirname(root))
