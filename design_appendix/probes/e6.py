import warnings, os, tempfile, shutil, sys; warnings.filterwarnings("ignore")
import torch, logging
from torchsnapshot import Snapshot, StateDict
from torchsnapshot.knobs import *
def files(root):
    out=[]
    for d,_,fs in os.walk(root):
        for f in fs: out.append((os.path.relpath(os.path.join(d,f),root), os.path.getsize(os.path.join(d,f))))
    return sorted(out)
def trial(name, sd_fn, batching_off=True, chunk=None, target_fn=None):
    root=tempfile.mkdtemp(prefix="ts_")+"/snap"
    try:
        with override_is_batching_disabled(batching_off):
            ctx = override_max_chunk_size_bytes(chunk) if chunk else override_is_batching_disabled(batching_off)
            with ctx:
                src={"m":StateDict(sd_fn())}
                snap=Snapshot.take(root, src)
                print(name,"files:",files(root))
                for k,v in snap.get_manifest().items():
                    if hasattr(v,"location"): print("   ",k,"->",v.location,v.byte_range if hasattr(v,'byte_range') else "")
                    if hasattr(v,"chunks"): print("   ",k,"chunks ->",[(c.tensor.location,c.tensor.byte_range) for c in v.chunks])
                dst={"m":StateDict((target_fn or sd_fn)())}
                for k in dst["m"]: 
                    if isinstance(dst["m"][k],torch.Tensor): dst["m"][k]=torch.zeros_like(dst["m"][k])
                Snapshot(root).restore(dst)
                s=src["m"].data; d=dst["m"].data
                def eq(a,b):
                    if isinstance(a,torch.Tensor): return isinstance(b,torch.Tensor) and a.dtype==b.dtype and a.shape==b.shape and torch.equal(a,b)
                    if isinstance(a,dict): return isinstance(b,dict) and list(a)==list(b) and all(eq(a[k],b[k]) for k in a)
                    return a==b
                print(name,"RESTORE_EQ:",eq(s,d))
    except Exception as e:
        print(name,"EXC",type(e).__name__,str(e)[:200].replace("\n"," "))
    finally:
        parent=os.path.dirname(root)
        print("   parent dir listing:",sorted(os.listdir(parent)), "tmp siblings escaped?", [f for f in os.listdir(os.path.dirname(parent)) if f.startswith("ESC")])
        shutil.rmtree(parent,ignore_errors=True)
trial("alias_chunk", lambda: {"w":torch.arange(16,dtype=torch.float32),"w_0":torch.full((4,),7,dtype=torch.float32)}, chunk=32)
trial("alias_chunk_batched", lambda: {"w":torch.arange(16,dtype=torch.float32),"w_0":torch.full((4,),7,dtype=torch.float32)}, batching_off=False, chunk=32)
trial("dotdot_alias", lambda: {"..":{"m":{"x":torch.ones(3)}}, "x":torch.zeros(3)})
trial("dotdot_escape", lambda: {"..":{"..":{"..":{"ESC_x":torch.ones(3)}}}})
trial("empty_key_alias", lambda: {"":{"x":torch.ones(3)}, "x":torch.zeros(3)})
trial("dot_alias", lambda: {".":{"x":torch.ones(3)}, "x":torch.zeros(3)})
trial("zero_size", lambda: {"z":torch.zeros(0,3),"a":torch.ones(2)}, batching_off=False)
trial("zero_size_nb", lambda: {"z":torch.zeros(0),"a":torch.ones(2)}, batching_off=True)
trial("bf16_odd", lambda: {"b":torch.ones(3,dtype=torch.bfloat16)}, batching_off=False)
trial("bf16_odd_nb", lambda: {"b":torch.ones(3,dtype=torch.bfloat16)}, batching_off=True)
os.system("ls /tmp | grep ESC")
