import warnings, tempfile, shutil, os, logging; warnings.filterwarnings("ignore"); logging.disable(logging.CRITICAL)
import torch
from torchsnapshot import Snapshot, StateDict
root=tempfile.mkdtemp()+"/s"
t=torch.arange(12.).reshape(3,4)
snap=Snapshot.take(root,{"m":StateDict({"a":t,"tr":t.t().contiguous()})})
for b in [None,8,16,1000]:
    r=snap.read_object("0/m/a",memory_budget_bytes=b); print("budget",b,"shape",tuple(r.shape),"eq",torch.equal(r.reshape(3,4),t))
out=torch.zeros(3,4); r=snap.read_object("0/m/a",obj_out=out,memory_budget_bytes=16); print("obj_out: returned shape",tuple(r.shape),"out filled",torch.equal(out,t), "same storage", r.data_ptr()==out.data_ptr())
out=torch.zeros(4,3).t(); r=snap.read_object("0/m/a",obj_out=out,memory_budget_bytes=16); print("noncontig obj_out: returned shape",tuple(r.shape),"out filled",torch.equal(out,t))
shutil.rmtree(os.path.dirname(root))
