# smoke: random multi-rank take (W) / restore (W') in the simulated world, patched or original tree
import warnings, threading, tempfile, shutil, os, pickle, random, sys, copy, logging; warnings.filterwarnings("ignore"); logging.disable(logging.CRITICAL)
import torch
from torchsnapshot import Snapshot, StateDict
from torchsnapshot.pg_wrapper import PGWrapper
class World:
    def __init__(s,W): s.W=W; s.cv=threading.Condition(); s.slots={}; s.gen=0; s.result=None
    def rendezvous(s,rank,kind,payload):
        with s.cv:
            gen=s.gen; s.slots[rank]=(kind,payload)
            if len(s.slots)==s.W:
                kinds={k for k,_ in s.slots.values()}
                s.result=("MISMATCH",dict(s.slots)) if len(kinds)>1 else ("OK",{r:pickle.loads(pickle.dumps(p)) for r,(k,p) in s.slots.items()})
                s.slots={}; s.gen+=1; s.cv.notify_all()
            else:
                if not s.cv.wait_for(lambda: s.gen!=gen, timeout=20): raise RuntimeError(f"DEADLOCK rank {rank} at {kind}")
            st,res=s.result
            if st!="OK": raise RuntimeError("collective mismatch %r"%({r:k for r,(k,_) in res.items()}))
            return res
tl=threading.local(); world=None
PGWrapper.get_rank=lambda self: tl.rank
PGWrapper.get_world_size=lambda self: world.W
PGWrapper.barrier=lambda self: world.rendezvous(tl.rank,"barrier",None) and None
def bcast(self,obj_list,src=0):
    res=world.rendezvous(tl.rank,"broadcast",list(obj_list)); obj_list[:]=res[src]
def allgather(self,obj_list,obj):
    res=world.rendezvous(tl.rank,"all_gather",obj)
    for r in range(world.W): obj_list[r]=res[r]
PGWrapper.broadcast_object_list=bcast; PGWrapper.all_gather_object=allgather
def run(W,fn):
    global world; world=World(W); errs=[None]*W
    def t(r):
        tl.rank=r
        try: fn(r)
        except Exception as e: errs[r]=e
    ts=[threading.Thread(target=t,args=(r,)) for r in range(W)]; [x.start() for x in ts]; [x.join() for x in ts]
    return errs
DT=[torch.float32,torch.bfloat16,torch.int64,torch.bool,torch.complex64,torch.float64,torch.uint8,torch.int16]
def rtensor(rng):
    dt=rng.choice(DT); shape=rng.choice([(),(0,),(3,),(5,),(2,3),(4,0,2),(7,1),(2,2,2)])
    n=1
    for d in shape: n*=d
    t=torch.randint(0,2,shape).to(dt) if dt==torch.bool else (torch.randn(shape,dtype=dt) if dt.is_floating_point or dt.is_complex else torch.randint(0,100,shape,dtype=dt))
    if rng.random()<0.3 and len(shape)==2: t=t.t()
    return t
def bits(t):
    t=t.contiguous().reshape(-1)
    if t.dtype==torch.bool: return t.to(torch.uint8)
    if t.dtype.is_complex: t=torch.view_as_real(t).reshape(-1)
    return t.view(torch.uint8)
def eq(a,b):
    if isinstance(a,torch.Tensor): return isinstance(b,torch.Tensor) and a.dtype==b.dtype and a.shape==b.shape and (a.numel()==0 or torch.equal(bits(a),bits(b)))
    if isinstance(a,dict): return type(a)==type(b) and list(a)==list(b) and all(eq(a[k],b[k]) for k in a)
    if isinstance(a,list): return isinstance(b,list) and len(a)==len(b) and all(eq(x,y) for x,y in zip(a,b))
    return type(a)==type(b) and a==b
def zero(o):
    if isinstance(o,torch.Tensor): return torch.zeros_like(o)
    if isinstance(o,dict): return type(o)((k,zero(v)) for k,v in o.items())
    if isinstance(o,list): return [zero(x) for x in o]
    return None if not isinstance(o,(int,str,float,bool,bytes)) else type(o)()
seed=int(sys.argv[1]); N=int(sys.argv[2]); bad=0
for it in range(N):
    rng=random.Random(seed*1000+it); torch.manual_seed(seed*1000+it)
    W=rng.randint(1,4); W2=rng.randint(1,4)
    os.environ["TORCHSNAPSHOT_DISABLE_BATCHING"]=rng.choice(["0","1"])
    os.environ["TORCHSNAPSHOT_MAX_CHUNK_SIZE_BYTES_OVERRIDE"]=str(rng.choice([1,7,16,64,10**9]))
    os.environ["TORCHSNAPSHOT_SLAB_SIZE_THRESHOLD_BYTES_OVERRIDE"]=str(rng.choice([1,9,40,10**9]))
    os.environ["TORCHSNAPSHOT_PER_RANK_MEMORY_BUDGET_BYTES"]=str(rng.choice([1,50,10**9]))
    os.environ["TORCHSNAPSHOT_MAX_PER_RANK_IO_CONCURRENCY_OVERRIDE"]=str(rng.choice([1,2,16]))
    # shared (replicated) part identical on all ranks; private part per rank
    shared={"w%d"%i:rtensor(rng) for i in range(rng.randint(0,3))}; shared["cfg"]=rng.choice([1,"s",2.5,b"\x00\xff",True]); shared["obj"]={1,2}
    shared["nest"]={"l":[rtensor(rng),{"q":rtensor(rng)}]}
    def mkstate(r):
        rr=random.Random(seed*77+it*13+r); torch.manual_seed(seed*77+it*13+r)
        priv={"p%d"%i:rtensor(rr) for i in range(rr.randint(0,2))}; priv["rankval"]=r
        d={"rep":copy.deepcopy(shared),"priv":priv}
        if rr.random()<0.4: d["only"]={"k%d"%r:rtensor(rr)}
        return d
    states=[mkstate(r) for r in range(max(W,W2))]
    root=tempfile.mkdtemp(prefix="tsw_")+"/snap"
    def take(r): Snapshot.take(root,{"m":StateDict(copy.deepcopy(states[r]))},replicated=["m/rep/**"])
    errs=run(W,take)
    if any(errs): print("TAKE ERR it",it,"W",W,errs); bad+=1; shutil.rmtree(os.path.dirname(root)); continue
    out={}
    def restore(r):
        tgt={"m":StateDict(zero(states[r]) if r<W else {"rep":zero(states[r]["rep"])})}
        Snapshot(root).restore(tgt); out[r]=tgt["m"].data
    errs=run(W2,restore)
    if any(errs): print("RESTORE ERR it",it,"W",W,"W2",W2,errs); bad+=1
    else:
        for r in range(W2):
            exp=states[r] if r<W else {"rep":shared}
            got=out[r]
            if r>=W and ("priv" in got and len(got["priv"])>0 or "only" in got and len(got["only"])>0): print("LEAK it",it,"rank",r,got.get("priv"),got.get("only")); bad+=1
            if not eq(exp,got if r<W else {"rep":got.get("rep")}): print("MISMATCH it",it,"W",W,"W2",W2,"rank",r, {k:os.environ[k] for k in os.environ if k.startswith("TORCHSNAPSHOT")}); bad+=1
    shutil.rmtree(os.path.dirname(root),ignore_errors=True)
print("done",N,"bad",bad)
