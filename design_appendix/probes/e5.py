import warnings; warnings.filterwarnings("ignore")
from torchsnapshot.manifest import *
import math,struct
def rt(man):
    md=SnapshotMetadata(version="0",world_size=1,manifest=man)
    y=md.to_yaml()
    md2=SnapshotMetadata.from_yaml(y)
    return md2.manifest, y
def tryit(name, man, cmp=None):
    try:
        m2,y=rt(man)
        eq = (m2==man) if cmp is None else cmp(m2,man)
        print("OK  " if eq else "DIFF", name, "" if eq else (repr(m2)[:150]))
    except Exception as e: print("EXC ",name,type(e).__name__,str(e)[:120].replace("\n"," "))
strs={"bmp":"é中","nonbmp":"😀","del":"a\x7fb","nul":"a\x00b","c1":"a\x85b","ls":"a b","ps":"a b","quote":'a"b\\c',"lone_sur":"a\ud800b","nl":"a\nb\r\tc","bom":"﻿x","fffe":"a￾b","ffff":"a￿","tab":"\t", "yes":"yes","colon":"a: b","hash":"# c", "long":"k"*2000, "trail_sp":"a  "}
for n,s in strs.items():
    tryit("primstr:"+n, {"0/x": PrimitiveEntry.from_object(s)}, lambda a,b: a["0/x"].get_value()==b["0/x"].get_value())
    tryit("path:"+n, {"0/"+s: PrimitiveEntry.from_object(1), "0": DictEntry(keys=[s])})
for f in [float("nan"),float("inf"),-0.0,5e-324,1e308,1.5]:
    def cmpf(a,b): 
        return struct.pack("d",a["0/x"].get_value())==struct.pack("d",b["0/x"].get_value())
    tryit("float:%r"%f, {"0/x": PrimitiveEntry.from_object(f)}, cmpf)
    tryit("float_eq:%r"%f, {"0/x": PrimitiveEntry.from_object(f)})
tryit("bytes", {"0/x": PrimitiveEntry.from_object(bytes(range(256)))})
tryit("bigint", {"0/x": PrimitiveEntry.from_object(-10**40), "0":DictEntry(keys=[10**40,-5,True,"1"])})
te=TensorEntry(location="a",serializer="buffer_protocol",dtype="torch.float32",shape=[2,3],replicated=True,byte_range=[0,24])
tryit("tensor",{"0/t":te})
tryit("kinds",{"0/t":te,"0/c":ChunkedTensorEntry(dtype="torch.float32",shape=[4,3],chunks=[Shard([0,0],[2,3],te),Shard([2,0],[2,3],te)],replicated=False),"0/s":ShardedTensorEntry(shards=[Shard([0,0],[2,3],te)]),"0/o":ObjectEntry("l","torch_save","builtins.set",False),"0/l":ListEntry(),"0/od":OrderedDictEntry(keys=["a",1]),"0/d":DTensorEntry(shards=[Shard([0,0],[2,3],te)],mesh=[[0,1],[2,3]],dim_map=[[0],[-1]])})
# prefix rejection
md=SnapshotMetadata(version="0",world_size=1,manifest={"0/t":te,"0":DictEntry(keys=["t"])})
y=md.to_yaml(); acc=[]
for i in range(len(y)):
    try:
        SnapshotMetadata.from_yaml(y[:i]); acc.append(i)
    except Exception: pass
print("accepted strict prefixes:",acc,"of",len(y))
