import warnings, asyncio, threading, time; warnings.filterwarnings("ignore")
from datetime import timedelta
from torchsnapshot.scheduler import execute_read_reqs, execute_write_reqs
from torchsnapshot.io_types import *
from torchsnapshot.dist_store import LinearBarrier
# ---- E9: read over-admission
log=[]; inflight={"bytes":0,"max":0,"n":0}
class Cons(BufferConsumer):
    def __init__(s,name,cost,delay): s.name=name;s.cost=cost;s.delay=delay
    async def consume_buffer(s,buf,executor=None):
        log.append(("consume_begin",s.name)); await asyncio.sleep(s.delay); log.append(("consume_end",s.name))
    def get_consuming_cost_bytes(s): return s.cost
class Store(StoragePlugin):
    async def write(s,write_io): pass
    async def read(s,read_io):
        log.append(("read_begin",read_io.path)); await asyncio.sleep(0.01); read_io.buf=io.BytesIO(b"x"*6); log.append(("read_end",read_io.path))
    async def delete(s,p): pass
    async def delete_dir(s,p): pass
    async def close(s): pass
import io
rrs=[ReadReq(path="R1",buffer_consumer=Cons("R1",6,0.2)),ReadReq(path="R2",buffer_consumer=Cons("R2",6,0.2))]
asyncio.new_event_loop().run_until_complete(execute_read_reqs(rrs,Store(),10,0))
print(log)
# accounted: R in flight from read_begin to consume_end
acc=0;mx=0;cur=set()
for ev,n in log:
    if ev=="read_begin": cur.add(n)
    if ev=="consume_end": cur.discard(n)
    mx=max(mx,6*len(cur))
print("budget 10, max accounted",mx)
# ---- E10: barrier reuse with same prefix on a persistent store
class FakeStore:
    def __init__(s): s.d={}; s.cv=threading.Condition()
    def set(s,k,v):
        with s.cv: s.d[k]=v.encode() if isinstance(v,str) else v; s.cv.notify_all()
    def get(s,k):
        with s.cv:
            while k not in s.d: s.cv.wait()
            return s.d[k]
    def wait(s,keys,timeout=None):
        with s.cv:
            ok=s.cv.wait_for(lambda: all(k in s.d for k in keys), timeout.total_seconds() if timeout else None)
            if not ok: raise RuntimeError("timeout")
store=FakeStore(); events=[]
def rank_fn(rank, snap_id, io_delay, fail=False):
    b=LinearBarrier(prefix="torchsnapshot_/same/path",store=store,rank=rank,world_size=2,leader_rank=0)
    try:
        time.sleep(io_delay); 
        if fail: raise RuntimeError("io failed")
        events.append((snap_id,rank,"io_done"))
        b.arrive(timedelta(seconds=5))
        if rank==0: events.append((snap_id,rank,"COMMIT"))
        b.depart(timedelta(seconds=5)); events.append((snap_id,rank,"wait_returns_ok"))
    except Exception as e:
        b.report_error(str(e)); events.append((snap_id,rank,"wait_raises",str(e)[:40]))
for snap_id,delays,fail in [(1,(0,0.05),False),(2,(0,0.3),False)]:
    ts=[threading.Thread(target=rank_fn,args=(r,snap_id,delays[r],fail)) for r in range(2)]
    [t.start() for t in ts]; [t.join() for t in ts]
print(*events,sep="\n")
store=FakeStore(); events=[]
for snap_id,delays,fails in [(1,(0,0.05),(False,True)),(2,(0,0.05),(False,False))]:
    ts=[threading.Thread(target=rank_fn,args=(r,snap_id,delays[r],fails[r])) for r in range(2)]
    [t.start() for t in ts]; [t.join() for t in ts]
print("--- failed then retry same path"); print(*events,sep="\n")
