# probe C06: exactly-once + balance of replicated writes, real partition_write_reqs in the simulated world
import warnings, threading, pickle, random, sys, os, logging, asyncio; warnings.filterwarnings("ignore"); logging.disable(logging.CRITICAL)
import torch
from torchsnapshot.pg_wrapper import PGWrapper
from torchsnapshot.io_preparer import prepare_write
from torchsnapshot.partitioner import partition_write_reqs, consolidate_replicated_entries, _estimate_write_req_storage_size
from torchsnapshot.manifest import ChunkedTensorEntry
exec(open("/verif/design_appendix/probes/p7.py").read().split("DT=[")[0].split("import torch\n",1)[1].replace("from torchsnapshot import Snapshot, StateDict\n",""))
seed=int(sys.argv[1]); bad=0; N=int(sys.argv[2]); stats=[]
for it in range(N):
    rng=random.Random(seed*100+it); W=rng.randint(1,6)
    os.environ["TORCHSNAPSHOT_MAX_CHUNK_SIZE_BYTES_OVERRIDE"]=str(rng.choice([8,16,40,10**9]))
    nrep=rng.randint(1,6); rep_sizes=[rng.choice([1,2,3,5,8,13,40]) for _ in range(nrep)]
    priv_sizes=[[rng.choice([1,4,9,30]) for _ in range(rng.randint(0,3))] for _ in range(W)]
    res={}
    def fn(r):
        entries={}; wrs={}
        for i,n in enumerate(rep_sizes):
            e,w=prepare_write(torch.arange(n,dtype=torch.float32),f"m/rep{i}",r,True); entries[f"m/rep{i}"]=e; wrs[f"m/rep{i}"]=w
        for i,n in enumerate(priv_sizes[r]):
            e,w=prepare_write(torch.arange(n,dtype=torch.float32),f"m/p{i}",r,False); entries[f"m/p{i}"]=e; wrs[f"m/p{i}"]=w
        ne,nw=partition_write_reqs(entries,wrs,PGWrapper(None)); res[r]=(ne,nw)
    errs=run(W,fn)
    if any(errs): print("ERR",it,errs); bad+=1; continue
    # exactly once
    from collections import Counter
    c=Counter(); load=[sum(4*n for n in priv_sizes[r]) for r in range(W)]; start=list(load); last_unit=[0]*W; got=[False]*W
    for r in range(W):
        for lp,ws in res[r][1].items():
            for w in ws:
                sz=_estimate_write_req_storage_size(w)
                if lp.startswith("m/rep"): c[w.path]+=1; load[r]+=sz; got[r]=True; last_unit[r]=max(last_unit[r],sz)
    exp_paths=set()
    for i,n in enumerate(rep_sizes):
        e,w=prepare_write(torch.arange(n,dtype=torch.float32),f"m/rep{i}",0,True); exp_paths|={x.path for x in w}
    if set(c)!=exp_paths or any(v!=1 for v in c.values()): print("NOT-ONCE",it,W,c); bad+=1
    mn=min(load)
    for r in range(W):
        if got[r] and load[r]>mn+last_unit[r]: print("UNBALANCED",it,"W",W,"start",start,"final",load,"rank",r,"maxunit",last_unit[r]); bad+=1
    man=consolidate_replicated_entries([dict(res[r][0]) for r in range(W)])
    for i,n in enumerate(rep_sizes):
        e=man[0][f"m/rep{i}"]
        if isinstance(e,ChunkedTensorEntry):
            offs=[ch.offsets[0] for ch in e.chunks]; tot=sum(ch.sizes[0] for ch in e.chunks)
            if offs!=sorted(offs) or tot!=n or len(set(offs))!=len(offs): print("BAD-CONSOLIDATE",it,offs,tot,n); bad+=1
        if any(f"m/rep{i}" in man[r] for r in range(1,W)): print("NOT-DEDUP",it); bad+=1
print("done",N,"bad",bad)
