# probe: world-size-1 gloo, ShardedTensor with arbitrary local shards; reshard via real prepare_write/prepare_read w/ in-memory store
import warnings, asyncio, io, os, tempfile; warnings.filterwarnings("ignore")
import torch, torch.distributed as dist
from torch.distributed._shard.sharded_tensor import ShardedTensor, Shard, ShardMetadata
from torchsnapshot.io_preparers.sharded_tensor import ShardedTensorIOPreparer
from torchsnapshot.knobs import override_max_shard_size_bytes
f=tempfile.NamedTemporaryFile(delete=False); 
dist.init_process_group("gloo", init_method=f"file://{f.name}", rank=0, world_size=1)
def mk(G, cuts_r, cuts_c, fill=None):
    shards=[]
    for i in range(len(cuts_r)-1):
        for j in range(len(cuts_c)-1):
            r0,r1,c0,c1=cuts_r[i],cuts_r[i+1],cuts_c[j],cuts_c[j+1]
            t=(G[r0:r1,c0:c1].clone() if fill is None else torch.full((r1-r0,c1-c0),fill))
            shards.append(Shard(t, ShardMetadata(shard_offsets=[r0,c0],shard_sizes=[r1-r0,c1-c0],placement="rank:0/cpu")))
    return ShardedTensor._init_from_local_shards(shards, G.shape)
G=torch.arange(35.).reshape(5,7)
src=mk(G,[0,2,5],[0,3,4,7])
with override_max_shard_size_bytes(20):
    entry,wrs=ShardedTensorIOPreparer.prepare_write("sharded/x",src)
print("n shards saved",len(entry.shards),[ (s.offsets,s.sizes) for s in entry.shards][:4])
store={}
loop=asyncio.new_event_loop()
for wr in wrs: store[wr.path]=bytes(loop.run_until_complete(wr.buffer_stager.stage_buffer()))
dst=mk(G,[0,1,4,5],[0,5,7],fill=-1.0)
rrs,fut=ShardedTensorIOPreparer.prepare_read(entry,dst)
for rr in rrs:
    b=store[rr.path]; b=b if rr.byte_range is None else b[rr.byte_range[0]:rr.byte_range[1]]
    loop.run_until_complete(rr.buffer_consumer.consume_buffer(b))
ok=all(torch.equal(s.tensor, G[s.metadata.shard_offsets[0]:s.metadata.shard_offsets[0]+s.metadata.shard_sizes[0], s.metadata.shard_offsets[1]:s.metadata.shard_offsets[1]+s.metadata.shard_sizes[1]]) for s in dst.local_shards())
print("reshard ok",ok, "reads",len(rrs))
dense=torch.full((5,7),-1.); rrs,fut=ShardedTensorIOPreparer.prepare_read(entry,dense)
for rr in rrs: loop.run_until_complete(rr.buffer_consumer.consume_buffer(store[rr.path]))
print("dense ok",torch.equal(dense,G))
dist.destroy_process_group(); os.unlink(f.name)
